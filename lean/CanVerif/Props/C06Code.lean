/-
C06 for the code as translated (T1): Frame.Validate, encodeFrame, decodeFrame, the flag / ID getters and the error-frame
getters of pkg/socketcan/frame.go, written as Lean definitions by harness/cmd/go2lean on every run and tied to
Model/Frame.lean by Bridge/FrameGo.lean and Bridge/DataGo.lean for every frame.  The 16-byte layout step
(marshalBinary / unmarshalBinary work on byte slices) is the model's; it is tied by the correspondence run.
-/
import CanVerif.Props.C06
import CanVerif.Bridge.FrameGo

namespace CanVerif
open CanVerif.Gen.Go CanVerif.Bridge

/-- the translated `Validate` returns nil exactly for the frames the property calls valid -/
theorem C06_code_validate (f : Gen.Go.Frame) :
    Frame_Validate_ret f = false ↔
      (f.IsExtended = true → f.ID.toNat ≤ 0x1fffffff) ∧ (f.IsExtended = false → f.ID.toNat ≤ 0x7ff) ∧
      f.Length.toNat ≤ 8 := by
  rw [(bridge_validate f).1]
  have := C06_validate (frameOf f)
  simp only [frameOf] at this
  rw [← this]; simp

/-- what is written for a frame encoded by the translated `encodeFrame` is the model's wire block (whose layout
`C06_tx_layout` / `C06_tx_flags` describe), whatever the previous content of the SocketCAN frame -/
theorem C06_code_tx (g : Gen.Go.frame) (cf : Gen.Go.Frame) :
    marshalBinary (scOf (frame_encodeFrame_recv g cf)) = wire (frameOf cf) ∧ frame_encodeFrame_ok g cf = true := by
  rw [(bridge_sc_encode g cf).1]; exact ⟨rfl, (bridge_sc_encode g cf).2⟩

/-- the translated `decodeFrame` of the frame read from a 16-byte block is the model's `unwire` (described by `C06_rx`) -/
theorem C06_code_rx (f : Gen.Go.frame) (b : BitVec 128) (hb : scOf f = unmarshalBinary b) :
    frameOf (frame_decodeFrame_ret f) = unwire b ∧ frame_decodeFrame_ok f = true := by
  rw [(bridge_sc_decode f).1, hb]; exact ⟨rfl, (bridge_sc_decode f).2⟩

/-- flags and error-frame fields of the translated getters, per bit of the block -/
theorem C06_code_flags (f : Gen.Go.frame) (b : BitVec 128) (hb : scOf f = unmarshalBinary b) :
    frame_isExtended_ret f = b.getLsbD 31 ∧ frame_isRemote_ret f = b.getLsbD 30 ∧ frame_isError_ret f = b.getLsbD 29 := by
  obtain ⟨h1, h2, h3, _⟩ := bridge_sc_flags f
  obtain ⟨re, rr, _, _, _, rerr⟩ := C06_rx b
  rw [h1, h2, h3, hb]
  exact ⟨re, rr, rerr⟩

theorem C06_code_err (f : Gen.Go.frame) (b : BitVec 128) (hb : scOf f = unmarshalBinary b) :
    (∀ i, (frame_errorClass_ret f).getLsbD i = (decide (i < 32) && b.getLsbD i && !decide (i = 29))) ∧
    frame_lostArbitrationBit_ret f = (b >>> 64).setWidth 8 ∧ frame_controllerError_ret f = (b >>> 72).setWidth 8 ∧
    frame_protocolError_ret f = (b >>> 80).setWidth 8 ∧ frame_protocolErrorLocation_ret f = (b >>> 88).setWidth 8 ∧
    frame_transceiverError_ret f = (b >>> 96).setWidth 8 := by
  obtain ⟨e1, e2, e3, e4, e5, e6, _⟩ := bridge_sc_error f
  have := C06_err b
  simp only at this
  rw [e1, e2, e3, e4, e5, e6, hb]
  exact ⟨this.1, this.2.1, this.2.2.1, this.2.2.2.1, this.2.2.2.2.1, this.2.2.2.2.2.1⟩

/-- round trip through the translated encode and decode (and the modelled 16-byte layout) for every valid frame -/
theorem C06_code_roundtrip (g : Gen.Go.frame) (cf : Gen.Go.Frame) (hv : Frame_Validate_ret cf = false) :
    frameOf (frame_decodeFrame_ret (frame_encodeFrame_recv g cf)) = frameOf cf := by
  have hv' : (frameOf cf).validate = true := by
    have := (bridge_validate cf).1
    simp only [frameOf]
    rw [this] at hv; simpa using hv
  have rt := C06_roundtrip (frameOf cf) hv'
  unfold unwire wire at rt
  rw [marshal_unmarshal] at rt
  rw [(bridge_sc_decode _).1, (bridge_sc_encode g cf).1]; exact rt

end CanVerif
