/-
C06 for the code as translated (T1): Frame.Validate, encodeFrame, decodeFrame, the flag / ID getters and the error-frame
getters of pkg/socketcan/frame.go, written as Lean definitions by harness/cmd/go2lean on every run and tied to
Model/Frame.lean by Bridge/FrameGo.lean and Bridge/DataGo.lean for every frame, and marshalBinary / unmarshalBinary on
byte slices of at least 16 bytes (the translator models the first 16 bytes of a slice and its length).  `codeWire` /
`codeUnwire` are the translated transmit and receive paths end to end: what `Transmitter.TransmitFrame` hands to
`conn.Write` and what `Receiver.Frame` returns for a 16-byte block.
-/
import CanVerif.Props.C06
import CanVerif.Bridge.FrameGo

namespace CanVerif
open CanVerif.Gen.Go CanVerif.Bridge

/-- the translated `Validate` returns nil exactly for the frames the property calls valid -/
theorem C06_code_validate (f : Gen.Go.Frame) :
    Frame_Validate_ret f = false ↔
      (f.IsExtended = true → f.ID.toNat ≤ 0x1fffffff) ∧ (f.IsExtended = false → f.ID.toNat ≤ 0x7ff) ∧
      f.Length.toNat ≤ 8 := by
  rw [(bridge_validate f).1]
  have := C06_validate (frameOf f)
  simp only [frameOf] at this
  rw [← this]; simp

/-- what is written for a frame encoded by the translated `encodeFrame` is the model's wire block (whose layout
`C06_tx_layout` / `C06_tx_flags` describe), whatever the previous content of the SocketCAN frame -/
theorem C06_code_tx (g : Gen.Go.frame) (cf : Gen.Go.Frame) :
    marshalBinary (scOf (frame_encodeFrame_recv g cf)) = wire (frameOf cf) ∧ frame_encodeFrame_ok g cf = true := by
  rw [(bridge_sc_encode g cf).1]; exact ⟨rfl, (bridge_sc_encode g cf).2⟩

/-- the translated `decodeFrame` of the frame read from a 16-byte block is the model's `unwire` (described by `C06_rx`) -/
theorem C06_code_rx (f : Gen.Go.frame) (b : BitVec 128) (hb : scOf f = unmarshalBinary b) :
    frameOf (frame_decodeFrame_ret f) = unwire b ∧ frame_decodeFrame_ok f = true := by
  rw [(bridge_sc_decode f).1, hb]; exact ⟨rfl, (bridge_sc_decode f).2⟩

/-- flags and error-frame fields of the translated getters, per bit of the block -/
theorem C06_code_flags (f : Gen.Go.frame) (b : BitVec 128) (hb : scOf f = unmarshalBinary b) :
    frame_isExtended_ret f = b.getLsbD 31 ∧ frame_isRemote_ret f = b.getLsbD 30 ∧ frame_isError_ret f = b.getLsbD 29 := by
  obtain ⟨h1, h2, h3, _⟩ := bridge_sc_flags f
  obtain ⟨re, rr, _, _, _, rerr⟩ := C06_rx b
  rw [h1, h2, h3, hb]
  exact ⟨re, rr, rerr⟩

theorem C06_code_err (f : Gen.Go.frame) (b : BitVec 128) (hb : scOf f = unmarshalBinary b) :
    (∀ i, (frame_errorClass_ret f).getLsbD i = (decide (i < 32) && b.getLsbD i && !decide (i = 29))) ∧
    frame_lostArbitrationBit_ret f = (b >>> 64).setWidth 8 ∧ frame_controllerError_ret f = (b >>> 72).setWidth 8 ∧
    frame_protocolError_ret f = (b >>> 80).setWidth 8 ∧ frame_protocolErrorLocation_ret f = (b >>> 88).setWidth 8 ∧
    frame_transceiverError_ret f = (b >>> 96).setWidth 8 := by
  obtain ⟨e1, e2, e3, e4, e5, e6, _⟩ := bridge_sc_error f
  have := C06_err b
  simp only at this
  rw [e1, e2, e3, e4, e5, e6, hb]
  exact ⟨this.1, this.2.1, this.2.2.1, this.2.2.2.1, this.2.2.2.2.1, this.2.2.2.2.2.1⟩

/-- round trip through the translated encode and decode (and the modelled 16-byte layout) for every valid frame -/
theorem C06_code_roundtrip (g : Gen.Go.frame) (cf : Gen.Go.Frame) (hv : Frame_Validate_ret cf = false) :
    frameOf (frame_decodeFrame_ret (frame_encodeFrame_recv g cf)) = frameOf cf := by
  have hv' : (frameOf cf).validate = true := by
    have := (bridge_validate cf).1
    simp only [frameOf]
    rw [this] at hv; simpa using hv
  have rt := C06_roundtrip (frameOf cf) hv'
  unfold unwire wire at rt
  rw [marshal_unmarshal] at rt
  rw [(bridge_sc_decode _).1, (bridge_sc_encode g cf).1]; exact rt

/-- the translated transmit path: `var scf frame; scf.encodeFrame(f); data := make([]byte, 16); scf.marshalBinary(data)` -/
def codeWire (cf : Gen.Go.Frame) : BitVec 128 :=
  BitVec.setWidth 128 (frame_marshalBinary_recv (frame_encodeFrame_recv ⟨0, 0, 0⟩ cf) 0#512 16#64)

/-- the translated receive path: `r.frame = frame{}; r.frame.unmarshalBinary(block); r.frame.decodeFrame()` -/
def codeUnwire (b : BitVec 128) : Gen.Go.Frame :=
  frame_decodeFrame_ret (frame_unmarshalBinary_recv ⟨0, 0, 0⟩ (BitVec.setWidth 512 b) 16#64)

theorem codeWire_eq (cf : Gen.Go.Frame) : codeWire cf = wire (frameOf cf) := by
  unfold codeWire wire
  rw [bridge_sc_marshal_zero _ _ (by decide), (bridge_sc_encode _ cf).1]

theorem codeUnwire_eq (b : BitVec 128) : frameOf (codeUnwire b) = unwire b := by
  unfold codeUnwire unwire
  rw [(bridge_sc_decode _).1, (bridge_sc_unmarshal _ _ _ (by decide)).1]
  have : BitVec.setWidth 128 (BitVec.setWidth 512 b) = b := by
    apply BitVec.eq_of_getLsbD_eq; intro i hi; simp [hi]
  rw [this]

/-- the 16 bytes the translated transmit path writes: ID and flags, length, zero padding, data -/
theorem C06_code_tx_layout (cf : Gen.Go.Frame) :
    (∀ i, ((codeWire cf).setWidth 32).getLsbD i =
        (cf.ID.getLsbD i || (cf.IsRemote && decide (i = 30)) || (cf.IsExtended && decide (i = 31)))) ∧
    ((codeWire cf) >>> 32).setWidth 8 = cf.Length ∧
    ((codeWire cf) >>> 40).setWidth 24 = 0#24 ∧
    ((codeWire cf) >>> 64).setWidth 64 = cf.Data := by
  rw [codeWire_eq]; exact C06_tx_layout (frameOf cf)

/-- what the translated receive path returns for every one of the 2^128 blocks -/
theorem C06_code_rx_block (b : BitVec 128) :
    (codeUnwire b).IsExtended = b.getLsbD 31 ∧ (codeUnwire b).IsRemote = b.getLsbD 30 ∧
    (∀ i, (codeUnwire b).ID.getLsbD i = (b.getLsbD i && decide (i < (if b.getLsbD 31 then 29 else 11)))) ∧
    (codeUnwire b).Length = (b >>> 32).setWidth 8 ∧ (codeUnwire b).Data = (b >>> 64).setWidth 64 := by
  have h := C06_rx b
  rw [← codeUnwire_eq] at h
  simp only [frameOf] at h
  exact ⟨h.1, h.2.1, h.2.2.1, h.2.2.2.1, h.2.2.2.2.1⟩

/-- end to end: what the translated receiver decodes from what the translated transmitter wrote is the frame, for every
valid frame -/
theorem C06_code_wire_roundtrip (cf : Gen.Go.Frame) (hv : Frame_Validate_ret cf = false) :
    frameOf (codeUnwire (codeWire cf)) = frameOf cf := by
  have hv' : (frameOf cf).validate = true := by
    have := (bridge_validate cf).1
    simp only [frameOf]
    rw [this] at hv; simpa using hv
  rw [codeUnwire_eq, codeWire_eq]; exact C06_roundtrip (frameOf cf) hv'

end CanVerif
