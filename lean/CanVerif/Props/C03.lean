import CanVerif.Lemmas.GenSem
import CanVerif.Lemmas.GenRoundTrip
/-!
# C03  Generated message types encode and decode frames exactly as the DBC specifies

Over the denotation of the generated code (Model/GenSem.lean): a frame with another ID, another length, the other ID
format or the remote flag is rejected and the message is unchanged (`C03_reject`, `C03_accept_iff`); the value assigned
to an integer signal by `UnmarshalFrame` is the C01 read of the signal's layout (`C03_decode_unsigned`,
`C03_decode_signed`, `C03_decode_bool`), hence — by `C01_unsigned_value` / `C01_signed` — the integer whose binary digits
are the payload bits the DBC layout selects; the frame header is the message's (`C10_frame_header`).
For integer and bool signals in a §4.3 layout (`MsgOk`): the produced frame holds every encoded signal's raw value at
its own layout (`C03_encode`) and zeros at every other position (`C03_zero_elsewhere`); a multiplexed signal is encoded
exactly when the stored multiplexer value equals its selector (`C03_mux_encode`) and decoded exactly when the
multiplexer value decoded from the same frame equals it, keeping its previous value otherwise (`C03_mux_decode`).
That the emitted Go text has this denotation, float32 signals, the dispatcher and the embedded descriptors are decided
per generated program on every run (bin/props.py C03).
-/
namespace CanVerif

/-- Rejection: any mismatch in ID, length, remote flag or ID format yields an error and no new state. -/
theorem C03_reject (m : DMessage) (st : GState) (f : Frame)
    (h : f.id.toNat ≠ m.id ∨ f.length.toNat ≠ m.length ∨ f.isRemote = true ∨ f.isExtended ≠ m.extended) :
    unmarshalFrame m st f = none := by
  unfold unmarshalFrame
  have : (f.id.toNat != m.id || f.length.toNat != m.length || f.isRemote || f.isExtended != m.extended) = true := by
    rcases h with h | h | h | h <;> simp [h]
  simp [this]

/-- Acceptance is exactly the conjunction of the four checks. -/
theorem C03_accept_iff (m : DMessage) (st : GState) (f : Frame) :
    (unmarshalFrame m st f).isSome = true ↔
      (f.id.toNat = m.id ∧ f.length.toNat = m.length ∧ f.isRemote = false ∧ f.isExtended = m.extended) := by
  unfold unmarshalFrame
  by_cases h : (f.id.toNat != m.id || f.length.toNat != m.length || f.isRemote || f.isExtended != m.extended) = true
  · simp only [h, if_true, Option.isSome_none, Bool.false_eq_true, false_iff]
    intro ⟨a, b, c, d⟩
    simp [a, b, c, d] at h
  · have h' := h
    simp only [Bool.or_eq_true, bne_iff_ne, ne_eq, not_or, Decidable.not_not, Bool.not_eq_true] at h'
    rw [if_neg h]
    constructor
    · intro _; exact ⟨h'.1.1.1, h'.1.1.2, h'.1.2, h'.2⟩
    · intro _
      by_cases he : m.signals.isEmpty = true
      · rw [if_pos he]; rfl
      · rw [if_neg he]; rfl

/-- Decoding an unsigned integer signal stores the C01 read of its layout. -/
theorem C03_decode_unsigned (s : DSignal) (d : Data) (w : Nat) (hk : kindOf s = .uint w) (hs : s.signed = false)
    (hfit : s.sig.range.Fits) (h64 : s.length ≤ 64) (hf : ¬ (s.length ≤ 32 ∧ s.float = true)) :
    unmarshalField s d = ((readU s.sig.range d).toNat : Int) := by
  obtain ⟨hw, hne1, _⟩ := kind_uint s w hk
  obtain ⟨_, hlw, _⟩ := goWidth_spec s.length h64
  unfold unmarshalField
  have c1 : (decide (s.length ≤ 32) && s.float) = false := by
    cases hfl : s.float <;> simp_all
  have c2 : (s.length == 1) = false := by simpa using hne1
  simp only [c1, c2, hs, Bool.false_eq_true, if_false, hk]
  have hb := readU_below s.sig.range d hfit
  have hlt : (readU s.sig.range d).toNat < 2 ^ w := by
    unfold Below at hb
    exact Nat.lt_of_lt_of_le hb (Nat.pow_le_pow_right (by omega) (by simp [Sig.range, DSignal.sig]; omega))
  exact wrap_uint_id w _ (by omega) (by exact_mod_cast hlt)

/-- Decoding a signed integer signal stores the C01 signed read of its layout (sign extension of exactly those bits). -/
theorem C03_decode_signed (s : DSignal) (d : Data) (h : SigOk s) (h1 : s.length ≠ 1) (hs : s.signed = true) :
    unmarshalField s d = (readS s.sig.range d).toInt := by
  rw [unmarshalField_eq s d h.nofloat]
  simp only [h1, if_false, hs, if_true, kindOf_sint s h.nofloat h1 h.l64 hs]
  have hl : s.sig.range.l = s.length := rfl
  obtain ⟨lo, hi⟩ := readS_toInt_bounds s.sig.range d h.fits (by rw [hl]; exact h.l1) (by rw [hl]; exact h.l64)
  rw [hl] at lo hi
  have hw := goWidth_ge s.length h.l64
  have hp := pow_le_pow_int (s.length - 1) (goWidth s.length - 1) (by omega)
  exact wrap_sint_id _ (by have := h.l1; omega) _ (Int.le_trans (Int.neg_le_neg hp) lo) (Int.lt_of_lt_of_le hi hp)

/-- Encoding: in the produced frame every encoded signal (plain signals, and multiplexed signals whose selector equals
the stored multiplexer value) holds exactly its stored raw value at its own layout. -/
theorem C03_encode (m : DMessage) (st : GState) (hm : MsgOk m) (hinv : Inv m st = true)
    (p : DSignal × Raw) (hp : p ∈ m.signals.zip st.vals)
    (hc : p.1.muxed = false ∨ c2of m st.vals p.1 = true) : unmarshalField p.1 (frameOf m st).data = p.2 :=
  frame_read m st hm hinv p hp (hc.imp (fun h => by unfold c1; simp [h]) id)

/-- … and zeros everywhere else. -/
theorem C03_zero_elsewhere (m : DMessage) (st : GState) (hm : MsgOk m) (hinv : Inv m st = true) (k : Nat)
    (hout : ∀ p ∈ m.signals.zip st.vals, (p.1.muxed = false ∨ c2of m st.vals p.1 = true) →
      ∀ i, i < p.1.length → p.1.rng.pos i ≠ k) : payloadBit (frameOf m st).data k = false := by
  have hsig : ∀ q ∈ m.signals.zip st.vals, SigOk q.1 := fun q hq => hm.sigs q.1 (List.of_mem_zip hq).1
  have ok : ∀ c, ActiveOk c (m.signals.zip st.vals) := fun c q hq _ => ⟨hsig q hq, inv_mem m st hinv q hq⟩
  rw [frameOf_data, enc_outside _ _ _ (ok _) k (fun p hp hc => hout p hp (Or.inr hc)),
    enc_outside _ _ _ (ok _) k (fun p hp hc => hout p hp (Or.inl (by unfold c1 at hc; simpa using hc)))]
  simp [payloadBit]

/-- A multiplexed signal is encoded exactly when the message has a multiplexer whose stored value equals the
signal's selector. -/
theorem C03_mux_encode (m : DMessage) (vals : List Raw) (s : DSignal) :
    c2of m vals s = true ↔ s.muxed = true ∧ ∃ mi ms, muxOf m = some (mi, ms) ∧ vals.getD mi 0 = (s.muxValue : Int) := by
  unfold c2of
  cases h : muxOf m with
  | none => simp
  | some mp => obtain ⟨mi, ms⟩ := mp; simp

/-- Decoding: plain signals are always transferred; a multiplexed signal is transferred exactly when the multiplexer
value decoded from the same frame equals its selector and otherwise keeps its previous value. -/
theorem C03_mux_decode (m : DMessage) (st st' : GState) (f : Frame)
    (hplain : ∀ s ∈ m.signals, s.mux = true → s.muxed = false)
    (hlen : st.vals.length = m.signals.length) (h : unmarshalFrame m st f = some st')
    (i : Nat) (s : DSignal) (hs : m.signals[i]? = some s) :
    st'.vals.getD i 0 =
      if s.muxed = false then unmarshalField s f.data
      else match muxOf m with
        | none => st.vals.getD i 0
        | some (_, ms) =>
          if unmarshalField ms f.data = (s.muxValue : Int) then unmarshalField s f.data else st.vals.getD i 0 :=
  unmarshalFrame_get m st st' f hplain hlen h i s hs

/-- Decoding a 1-bit signal stores the single addressed bit. -/
theorem C03_decode_bool (s : DSignal) (d : Data) (h1 : s.length = 1) (hfl : s.float = false) (hstart : s.start ≤ 63) :
    unmarshalField s d = if payloadBit d s.start then 1 else 0 := by
  unfold unmarshalField
  have hn : ¬ s.start > 63 := by omega
  by_cases hb : BitVec.getLsbD d s.start = true
  · simp [hfl, h1, DSignal.sig, Sig.unmarshalBool, getBit, payloadBit, hn, hb]
  · simp [hfl, h1, DSignal.sig, Sig.unmarshalBool, getBit, payloadBit, hn, hb]

end CanVerif
