import CanVerif.Lemmas.GenSem
/-!
# C03  Generated message types encode and decode frames exactly as the DBC specifies

Over the denotation of the generated code (Model/GenSem.lean): a frame with another ID, another length, the other ID
format or the remote flag is rejected and the message is unchanged (`C03_reject`, `C03_accept_iff`); the value assigned
to an integer signal by `UnmarshalFrame` is the C01 read of the signal's layout (`C03_decode_unsigned`,
`C03_decode_signed`, `C03_decode_bool`), hence — by `C01_unsigned_value` / `C01_signed` — the integer whose binary digits
are the payload bits the DBC layout selects; the frame header is the message's (`C10_frame_header`).
That the emitted Go text has this denotation, the encode direction ("those bits, zeros elsewhere"), multiplexing, the
dispatcher and the embedded descriptors are decided per generated program on every run (bin/props.py C03).
-/
namespace CanVerif

/-- Rejection: any mismatch in ID, length, remote flag or ID format yields an error and no new state. -/
theorem C03_reject (m : DMessage) (st : GState) (f : Frame)
    (h : f.id.toNat ≠ m.id ∨ f.length.toNat ≠ m.length ∨ f.isRemote = true ∨ f.isExtended ≠ m.extended) :
    unmarshalFrame m st f = none := by
  unfold unmarshalFrame
  have : (f.id.toNat != m.id || f.length.toNat != m.length || f.isRemote || f.isExtended != m.extended) = true := by
    rcases h with h | h | h | h <;> simp [h]
  simp [this]

/-- Acceptance is exactly the conjunction of the four checks. -/
theorem C03_accept_iff (m : DMessage) (st : GState) (f : Frame) :
    (unmarshalFrame m st f).isSome = true ↔
      (f.id.toNat = m.id ∧ f.length.toNat = m.length ∧ f.isRemote = false ∧ f.isExtended = m.extended) := by
  unfold unmarshalFrame
  by_cases h : (f.id.toNat != m.id || f.length.toNat != m.length || f.isRemote || f.isExtended != m.extended) = true
  · simp only [h, if_true, Option.isSome_none, Bool.false_eq_true, false_iff]
    intro ⟨a, b, c, d⟩
    simp [a, b, c, d] at h
  · have h' := h
    simp only [Bool.or_eq_true, bne_iff_ne, ne_eq, not_or, Decidable.not_not, Bool.not_eq_true] at h'
    rw [if_neg h]
    constructor
    · intro _; exact ⟨h'.1.1.1, h'.1.1.2, h'.1.2, h'.2⟩
    · intro _
      by_cases he : m.signals.isEmpty = true
      · rw [if_pos he]; rfl
      · rw [if_neg he]; rfl

/-- Decoding an unsigned integer signal stores the C01 read of its layout. -/
theorem C03_decode_unsigned (s : DSignal) (d : Data) (w : Nat) (hk : kindOf s = .uint w) (hs : s.signed = false)
    (hfit : s.sig.range.Fits) (h64 : s.length ≤ 64) (hf : ¬ (s.length ≤ 32 ∧ s.float = true)) :
    unmarshalField s d = ((readU s.sig.range d).toNat : Int) := by
  obtain ⟨hw, hne1, _⟩ := kind_uint s w hk
  obtain ⟨_, hlw, _⟩ := goWidth_spec s.length h64
  unfold unmarshalField
  have c1 : (decide (s.length ≤ 32) && s.float) = false := by
    cases hfl : s.float <;> simp_all
  have c2 : (s.length == 1) = false := by simpa using hne1
  simp only [c1, c2, hs, Bool.false_eq_true, if_false, hk]
  have hb := readU_below s.sig.range d hfit
  have hlt : (readU s.sig.range d).toNat < 2 ^ w := by
    unfold Below at hb
    exact Nat.lt_of_lt_of_le hb (Nat.pow_le_pow_right (by omega) (by simp [Sig.range, DSignal.sig]; omega))
  exact wrap_uint_id w _ (by omega) (by exact_mod_cast hlt)

/-- Decoding a 1-bit signal stores the single addressed bit. -/
theorem C03_decode_bool (s : DSignal) (d : Data) (h1 : s.length = 1) (hfl : s.float = false) (hstart : s.start ≤ 63) :
    unmarshalField s d = if payloadBit d s.start then 1 else 0 := by
  unfold unmarshalField
  have hn : ¬ s.start > 63 := by omega
  by_cases hb : BitVec.getLsbD d s.start = true
  · simp [hfl, h1, DSignal.sig, Sig.unmarshalBool, getBit, payloadBit, hn, hb]
  · simp [hfl, h1, DSignal.sig, Sig.unmarshalBool, getBit, payloadBit, hn, hb]

end CanVerif
