import CanVerif.Lemmas.FloatInt
import CanVerif.Props.C09Mono
import CanVerif.Props.C10
/-!
# C10 (physical setters)  Physical setters keep the raw value in range for signals of up to 53 bits

`setPhys s x` is `T(FromPhysical(x))` (Model/GenSem.lean).  For every integer signal of 2..53 bits with a finite offset
and a finite non-zero factor, and every non-NaN argument (infinities included), the stored raw value lies inside the
signal's representable range (`C10_setPhys_inRange`), and the invariant of the whole message is preserved
(`C10_setPhys_inv`).  The bound 53 is where the raw bounds stop being exactly representable in binary64; from 54 bits
(unsigned) / 55 bits (signed) the statement is false on the unchanged tree (known finding F1), so this is the complement
of that finding.  Proof: the saturation step leaves a finite double between `float64(min)` and `float64(max)`
(`C09_max_key`/`C09_min_key`), both exact (`ofNat_exact`), so its truncation toward zero lies between the two integers
(`toInt64_between`), which fits the accessor type, so the amd64 conversions do not wrap (`toIntType_signed/_unsigned`).
-/
namespace CanVerif

theorem fval_zero : fval (0 : F64) = 0 ∧ f64Mag (0 : F64) < f64Inf := by
  refine ⟨?_, by decide⟩
  have hp : f64Parts (0 : F64) = (0, -1074) := by decide
  have hn : f64IsNeg (0 : F64) = false := by decide
  unfold fval mval; rw [hn, hp]; simp

/-- the value before the final saturation is not NaN -/
theorem preSat_notNaN (s : DSignal) (x : F64) (hx : NotNaN x)
    (hoff : f64Mag s.offset < f64Inf) (hoffw : s.offset < 2 ^ 64)
    (hsc : f64Mag s.scale < f64Inf) (hscz : f64Mag s.scale ≠ 0) (hmin : NotNaN s.min) (hmax : NotNaN s.max) :
    NotNaN (f64Div (f64Sub (if hasRange s then f64Max (f64Min x s.max) s.min else x) s.offset) s.scale) := by
  have nc : NotNaN (if hasRange s then f64Max (f64Min x s.max) s.min else x) := by
    split
    · exact max_notNaN _ _ (min_notNaN _ _ hx hmax) hmin
    · exact hx
  generalize (if hasRange s then f64Max (f64Min x s.max) s.min else x) = c at *
  have ec := (notNaN_iff_ext c).mp nc
  obtain ⟨_, a, b⟩ := sub_mono c c s.offset ec ec hoff hoffw (le_refl _)
  have es := ext_of_key _ a b
  obtain ⟨_, ⟨d1, d2⟩, _⟩ := div_mono _ _ s.scale es es hsc hscz (le_refl _)
  exact (notNaN_iff_ext _).mpr (ext_of_key _ d1 d2)

/-- a double whose key lies between the keys of two finite doubles is finite and its value lies between theirs -/
theorem between_fin (lo hi r : F64) (hlo : f64Mag lo < f64Inf) (hhi : f64Mag hi < f64Inf) (hr : NotNaN r)
    (h1 : f64Key lo ≤ f64Key r) (h2 : f64Key r ≤ f64Key hi) :
    f64Mag r < f64Inf ∧ fval lo ≤ fval r ∧ fval r ≤ fval hi := by
  have b1 := key_fin_lt lo hlo
  have b2 := key_fin_lt hi hhi
  have er := (notNaN_iff_ext r).mp hr
  have fr : f64Mag r < f64Inf := by
    rcases ext_cases r er with h | h
    · exact h
    · exfalso
      have := key_inf r h
      split at this <;> omega
  exact ⟨fr, (key_le_iff lo r hlo fr).mp h1, (key_le_iff r hi fr hhi).mp h2⟩

theorem ofNat_lt63 (n : ℕ) (h0 : 0 < n) (h : n < 2 ^ 53) : f64OfNat n < 2 ^ 64 := by
  obtain ⟨hn, _, _⟩ := ofNat_exact n h0 h
  unfold f64IsNeg f64SignBit at hn
  simp only [decide_eq_false_iff_not] at hn
  exact Nat.lt_of_lt_of_le (Nat.lt_of_not_le hn) (by decide)

/-- saturation between 0 and `float64(2^L-1)`, then `uintW(..)`: inside `[0, 2^L-1]` (L ≤ 53 ≤ W) -/
theorem sat_unsigned (L w : ℕ) (hL2 : 2 ≤ L) (hL53 : L ≤ 53) (hw : w = 8 ∨ w = 16 ∨ w = 32 ∨ w = 64) (hLw : L ≤ w)
    (r2 : F64) (hpre : NotNaN r2) :
    0 ≤ f64ToIntType false w (f64Max 0 (f64Min (f64OfNat (2 ^ L - 1)) r2)) ∧
    f64ToIntType false w (f64Max 0 (f64Min (f64OfNat (2 ^ L - 1)) r2)) ≤ (2:ℤ) ^ L - 1 := by
  have hpLn' : (2:ℕ) ^ L ≤ 2 ^ 53 := Nat.pow_le_pow_right (by decide) hL53
  have hge4 : 4 ≤ (2:ℕ) ^ L := by
    calc 4 = 2 ^ 2 := by norm_num
      _ ≤ 2 ^ L := Nat.pow_le_pow_right (by decide) hL2
  have hn0 : 0 < 2 ^ L - 1 := by omega
  have hn53 : 2 ^ L - 1 < 2 ^ 53 := by omega
  obtain ⟨_, hhiF, hhiV⟩ := ofNat_exact _ hn0 hn53
  obtain ⟨z0, zF⟩ := fval_zero
  have nz : NotNaN (0 : F64) := by unfold NotNaN; decide
  have nhi := ofNat_notNaN (2 ^ L - 1)
  have nmin := min_notNaN _ r2 nhi hpre
  have nres := max_notNaN 0 _ nz nmin
  have kres : f64Key (f64Max 0 (f64Min (f64OfNat (2 ^ L - 1)) r2)) =
      max (f64Key 0) (min (f64Key (f64OfNat (2 ^ L - 1))) (f64Key r2)) := by
    rw [key_max _ _ nz nmin, key_min _ _ nhi hpre]
  have klohi : f64Key (0 : F64) ≤ f64Key (f64OfNat (2 ^ L - 1)) := by
    rw [key_le_iff _ _ zF hhiF, z0, hhiV]; positivity
  obtain ⟨fr, v1, v2⟩ := between_fin 0 _ _ zF hhiF nres (by rw [kres]; omega) (by rw [kres]; omega)
  rw [z0] at v1; rw [hhiV] at v2
  generalize f64Max 0 (f64Min (f64OfNat (2 ^ L - 1)) r2) = r at *
  have hcz : ((2 ^ L - 1 : ℕ) : ℤ) = 2 ^ L - 1 := by
    rw [Int.ofNat_sub (Nat.pow_pos (by decide))]; simp
  have hhi53 : ((2 ^ L - 1 : ℕ) : ℤ) < 2 ^ 53 := by exact_mod_cast hn53
  obtain ⟨c1, c2⟩ := toInt64_between r fr 0 ((2 ^ L - 1 : ℕ) : ℤ) (by norm_num) (by omega)
    (by simpa using v1) (by exact_mod_cast v2)
  have hwle : (2:ℤ) ^ L ≤ 2 ^ w := pow_le_pow_int _ _ hLw
  have hvq : fval r < 2 ^ 63 := by
    have : ((2 ^ L - 1 : ℕ) : ℚ) < 2 ^ 63 := by
      have : (2 ^ L - 1 : ℕ) < 2 ^ 63 := by omega
      exact_mod_cast this
    linarith
  rw [toIntType_unsigned w hw r fr c1 (by omega) (by omega) hvq]
  omega

/-- saturation between `float64(-2^(L-1))` and `float64(2^(L-1)-1)`, then `intW(..)`: inside the signed raw range -/
theorem sat_signed (L w : ℕ) (hL2 : 2 ≤ L) (hL53 : L ≤ 53) (hw : w = 8 ∨ w = 16 ∨ w = 32 ∨ w = 64) (hLw : L ≤ w)
    (r2 : F64) (hpre : NotNaN r2) :
    -(2:ℤ) ^ (L - 1) ≤ f64ToIntType true w (f64Max (f64OfInt (-(2:ℤ) ^ (L - 1))) (f64Min (f64OfInt ((2:ℤ) ^ (L - 1) - 1)) r2)) ∧
    f64ToIntType true w (f64Max (f64OfInt (-(2:ℤ) ^ (L - 1))) (f64Min (f64OfInt ((2:ℤ) ^ (L - 1) - 1)) r2)) ≤ (2:ℤ) ^ (L - 1) - 1 := by
  have hpL : (2:ℤ) ^ (L - 1) ≤ 2 ^ 52 := pow_le_pow_int (L - 1) 52 (by omega)
  have hpLn : (2:ℕ) ^ (L - 1) ≤ 2 ^ 52 := Nat.pow_le_pow_right (by decide) (by omega)
  have hpos : 0 < (2:ℕ) ^ (L - 1) := Nat.pow_pos (by decide)
  have hpos2 : 2 ≤ (2:ℕ) ^ (L - 1) := by
    calc 2 = 2 ^ 1 := by norm_num
      _ ≤ 2 ^ (L - 1) := Nat.pow_le_pow_right (by decide) (by omega)
  have hlo_eq : f64OfInt (-(2:ℤ) ^ (L - 1)) = f64Neg (f64OfNat (2 ^ (L - 1))) := by
    unfold f64OfInt
    have hneg : (-(2:ℤ) ^ (L - 1)) < 0 := by
      have : (0:ℤ) < 2 ^ (L - 1) := by positivity
      omega
    simp only [hneg, if_true]
    have hab : (-(2:ℤ) ^ (L - 1)).natAbs = 2 ^ (L - 1) := by
      rw [Int.natAbs_neg, Int.natAbs_pow]; rfl
    rw [hab]
  have hhi_eq : f64OfInt ((2:ℤ) ^ (L - 1) - 1) = f64OfNat (2 ^ (L - 1) - 1) := by
    unfold f64OfInt
    have hnn : ¬ ((2:ℤ) ^ (L - 1) - 1 < 0) := by
      have : (1:ℤ) ≤ 2 ^ (L - 1) := by exact_mod_cast hpos
      omega
    simp only [hnn, if_false]
    congr 1
    have : ((2:ℤ) ^ (L - 1) - 1) = ((2 ^ (L - 1) - 1 : ℕ) : ℤ) := by
      rw [Int.ofNat_sub hpos]; simp
    rw [this, Int.toNat_natCast]
  rw [hlo_eq, hhi_eq]
  obtain ⟨_, aF, aV⟩ := ofNat_exact (2 ^ (L - 1)) hpos (by omega)
  obtain ⟨_, bF, bV⟩ := ofNat_exact (2 ^ (L - 1) - 1) (by omega) (by omega)
  have aw := ofNat_lt63 (2 ^ (L - 1)) hpos (by omega)
  have loF : f64Mag (f64Neg (f64OfNat (2 ^ (L - 1)))) < f64Inf := by rw [neg_mag]; exact aF
  have loV : fval (f64Neg (f64OfNat (2 ^ (L - 1)))) = -((2 ^ (L - 1) : ℕ) : ℚ) := by
    rw [fval_neg _ aw, aV]
  have nlo : NotNaN (f64Neg (f64OfNat (2 ^ (L - 1)))) := by
    rw [notNaN_iff_ext]; unfold Ext; exact Nat.le_of_lt loF
  have nhi := ofNat_notNaN (2 ^ (L - 1) - 1)
  have nmin := min_notNaN _ r2 nhi hpre
  have nres := max_notNaN _ _ nlo nmin
  have kres : f64Key (f64Max (f64Neg (f64OfNat (2 ^ (L - 1)))) (f64Min (f64OfNat (2 ^ (L - 1) - 1)) r2)) =
      max (f64Key (f64Neg (f64OfNat (2 ^ (L - 1)))))
        (min (f64Key (f64OfNat (2 ^ (L - 1) - 1))) (f64Key r2)) := by
    rw [key_max _ _ nlo nmin, key_min _ _ nhi hpre]
  have klohi : f64Key (f64Neg (f64OfNat (2 ^ (L - 1)))) ≤ f64Key (f64OfNat (2 ^ (L - 1) - 1)) := by
    rw [key_le_iff _ _ loF bF, loV, bV]
    have : (0:ℚ) ≤ ((2 ^ (L - 1) - 1 : ℕ) : ℚ) := by positivity
    have : (0:ℚ) ≤ ((2 ^ (L - 1) : ℕ) : ℚ) := by positivity
    linarith
  obtain ⟨fr, v1, v2⟩ := between_fin _ _ _ loF bF nres (by rw [kres]; omega) (by rw [kres]; omega)
  rw [loV] at v1; rw [bV] at v2
  generalize f64Max (f64Neg (f64OfNat (2 ^ (L - 1)))) (f64Min (f64OfNat (2 ^ (L - 1) - 1)) r2) = r at *
  have hc1 : -(((2 ^ (L - 1) : ℕ)) : ℚ) = ((-(2:ℤ) ^ (L - 1) : ℤ) : ℚ) := by push_cast; ring
  have hc2 : (((2 ^ (L - 1) - 1 : ℕ)) : ℚ) = (((2:ℤ) ^ (L - 1) - 1 : ℤ) : ℚ) := by
    rw [Nat.cast_sub hpos]; push_cast; ring
  obtain ⟨c1, c2⟩ := toInt64_between r fr (-(2:ℤ) ^ (L - 1)) ((2:ℤ) ^ (L - 1) - 1)
    (by omega) (by omega) (by rw [← hc1]; exact v1) (by rw [← hc2]; exact v2)
  have hwle : (2:ℤ) ^ (L - 1) ≤ 2 ^ (w - 1) := pow_le_pow_int _ _ (by omega)
  rw [toIntType_signed w hw r fr (by omega) (by omega)]
  exact ⟨c1, c2⟩

/-- Physical setters store a value inside the representable range (integer signals of 2..53 bits). -/
theorem C10_setPhys_inRange (s : DSignal) (x : F64) (hx : NotNaN x)
    (hf : s.float = false) (hL2 : 2 ≤ s.length) (hL53 : s.length ≤ 53)
    (hoff : f64Mag s.offset < f64Inf) (hoffw : s.offset < 2 ^ 64)
    (hsc : f64Mag s.scale < f64Inf) (hscz : f64Mag s.scale ≠ 0) (hmin : NotNaN s.min) (hmax : NotNaN s.max) :
    rawInRange s (setPhys s x) = true := by
  have hne1 : s.length ≠ 1 := by omega
  have h64 : s.length ≤ 64 := Nat.le_trans hL53 (by decide)
  have hpre := preSat_notNaN s x hx hoff hoffw hsc hscz hmin hmax
  obtain ⟨bU, bMin, bMax⟩ := C08_bounds s.length (by omega) h64
  have hw := goWidth_spec s.length h64
  unfold setPhys fromPhysical rawInRange
  cases hsg : s.signed
  · have hk := kindOf_uint s hf hne1 hsg
    simp only [hk, Bool.false_eq_true, if_false, bU]
    obtain ⟨a, b⟩ := sat_unsigned s.length (goWidth s.length) hL2 hL53 hw.1 hw.2.1 _ hpre
    simp only [Bool.and_eq_true, decide_eq_true_eq]
    exact ⟨a, b⟩
  · have hk := kindOf_sint s hf hne1 h64 hsg
    simp only [hk, if_true, sInt64, bMin, bMax]
    obtain ⟨a, b⟩ := sat_signed s.length (goWidth s.length) hL2 hL53 hw.1 hw.2.1 _ hpre
    simp only [Bool.and_eq_true, decide_eq_true_eq]
    exact ⟨a, b⟩

/-- … and the invariant of the whole message is preserved by a physical setter. -/
theorem C10_setPhys_inv (m : DMessage) (st : GState) (i : Nat) (s : DSignal) (x : F64)
    (hinv : Inv m st = true) (hs : m.signals[i]? = some s) (hx : NotNaN x)
    (hf : s.float = false) (hL2 : 2 ≤ s.length) (hL53 : s.length ≤ 53)
    (hoff : f64Mag s.offset < f64Inf) (hoffw : s.offset < 2 ^ 64)
    (hsc : f64Mag s.scale < f64Inf) (hscz : f64Mag s.scale ≠ 0) (hmin : NotNaN s.min) (hmax : NotNaN s.max) :
    Inv m ⟨setAt st.vals i (setPhys s x)⟩ = true := by
  unfold Inv at hinv ⊢
  simp only [Bool.and_eq_true, beq_iff_eq] at hinv ⊢
  have := inv_setAt m.signals st.vals i s (setPhys s x) hinv.1 hinv.2 hs
    (C10_setPhys_inRange s x hx hf hL2 hL53 hoff hoffw hsc hscz hmin hmax)
  exact ⟨this.2, this.1⟩

/-- the class of signals for which the physical setter is proved safe -/
structure PhysOk (s : DSignal) : Prop where
  nofloat : s.float = false
  l2 : 2 ≤ s.length
  l53 : s.length ≤ 53
  off : f64Mag s.offset < f64Inf
  offw : s.offset < 2 ^ 64
  sc : f64Mag s.scale < f64Inf
  scz : f64Mag s.scale ≠ 0
  mn : NotNaN s.min
  mx : NotNaN s.max

/-- every operation of a generated message: the safe ones of `C10_inv_all_partial`, and physical setters -/
inductive AnyOp
  | safe (o : SafeOp)
  | setPhys (i : Nat) (x : F64)

def AnyOp.argOk : AnyOp → Prop
  | .safe _ => True
  | .setPhys _ x => NotNaN x

def applyAny (m : DMessage) (st : GState) : AnyOp → GState
  | .safe o => applySafe m st o
  | .setPhys i x => match m.signals[i]? with
    | some s => ⟨setAt st.vals i (setPhys s x)⟩
    | none => st

/-- "After any sequence of calls": construction, reset, raw setters, physical setters (any non-NaN argument,
infinities included), unmarshal (accepted or rejected) and copy-from, in any order and any number, leave every field
inside its representable range — for messages whose signals are integer signals of 2..53 bits in the class layout.
(With signals of 54 bits or more the statement is false on the unchanged tree: finding F1.) -/
theorem C10_inv_all (m : DMessage) (ops : List AnyOp)
    (hdef : ∀ s ∈ m.signals, rawInRange s (resetVal s) = true)
    (hcls : ∀ s ∈ m.signals, SigOk s) (hphys : ∀ s ∈ m.signals, PhysOk s) (harg : ∀ o ∈ ops, o.argOk) :
    Inv m (ops.foldl (applyAny m) (newState m)) = true := by
  have hstep : ∀ st op, op.argOk → Inv m st = true → Inv m (applyAny m st op) = true := by
    intro st op ha hi
    cases op with
    | safe o =>
      exact C10_safe_step m st o hdef hcls hi
    | setPhys i x =>
      show Inv m (match m.signals[i]? with
        | some s => ⟨setAt st.vals i (setPhys s x)⟩
        | none => st) = true
      cases hs : m.signals[i]? with
      | none => exact hi
      | some s =>
        have hm : s ∈ m.signals := List.mem_of_getElem? hs
        have c := hphys s hm
        exact C10_setPhys_inv m st i s x hi hs ha c.nofloat c.l2 c.l53 c.off c.offw c.sc c.scz c.mn c.mx
  have : ∀ (l : List AnyOp) st, (∀ o ∈ l, o.argOk) → Inv m st = true → Inv m (l.foldl (applyAny m) st) = true := by
    intro l
    induction l with
    | nil => intro st _ h; exact h
    | cons o os ih =>
      intro st ha h
      exact ih _ (fun o' ho' => ha o' (List.mem_cons_of_mem _ ho')) (hstep st o (ha o List.mem_cons_self) h)
  exact this ops _ harg (C10_inv_init m hdef)


/-- non-vacuity: the example message of Props/C10.lean without its selector-sized and bool-sized oddities — every
signal of 2..53 bits with factor 1 and offset 0 is in the class -/
theorem exSig_physOk (start len : Nat) (signed mux muxed : Bool) (mv : Nat) (h2 : 2 ≤ len) (h53 : len ≤ 53) :
    PhysOk (exSig start len signed mux muxed mv) :=
  ⟨rfl, h2, h53, by show f64Mag 0 < f64Inf; decide, by show (0 : F64) < 2 ^ 64; decide,
   by show f64Mag 0x3ff0000000000000 < f64Inf; decide, by show f64Mag 0x3ff0000000000000 ≠ 0; decide,
   by show f64IsNaN 0 = false; decide, by show f64IsNaN 0 = false; decide⟩

example : ∀ s ∈ exMsg.signals, PhysOk s := by
  intro s hs
  simp only [exMsg, List.mem_cons, List.mem_nil_iff, or_false] at hs
  rcases hs with rfl | rfl | rfl | rfl <;> exact exSig_physOk _ _ _ _ _ _ (by decide) (by decide)

/-- and the premises of the finding's complement are tight: at 54 bits the largest raw value is no longer a double
(`float64(2^54-1)` is `2^54`), which is where F1 starts -/
example : f64OfNat (2 ^ 54 - 1) = f64OfNat (2 ^ 54) := by decide +kernel

/-- **Finding F1 as a theorem about the model**: a 54-bit unsigned signal with factor 2, no range, and the argument +∞.
The generator emits physical accessors for it, the physical setter stores 2^54, and that is outside the representable
range — so `C10_setPhys_inRange` cannot be extended beyond 53 bits, and the model reproduces what the code does. -/
def f1Sig : DSignal := { exSig 0 54 false false false 0 with scale := 0x4000000000000000 }

theorem C10_F1_witness :
    hasPhysical f1Sig = true ∧ setPhys f1Sig 0x7ff0000000000000 = 2 ^ 54 ∧
    rawInRange f1Sig (setPhys f1Sig 0x7ff0000000000000) = false := by decide +kernel

end CanVerif
