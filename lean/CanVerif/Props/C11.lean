import CanVerif.Lemmas.GenSem
import CanVerif.Model.GenApi
/-!
# C11  Generator succeeds on every supported DBC and emits the API the DBC implies

"Generation returns no error, is deterministic, gofmt-canonical and compiles" is a statement about go/format and the
Go compiler applied to emitted text; it has no executable Lean model and is decided per program (bin/props.py C11).
What is decision logic is proved here, for every signal: the Go width, the field type, and when physical accessors
exist; `apiOf` (Model/GenApi.lean) is the API listing those decisions imply and is compared with the API extracted
from every generated file.
-/
namespace CanVerif

/-- Width rule: the narrowest of 8/16/32/64 bits that holds the signal's length. -/
theorem C11_width (L : Nat) (h : L ≤ 64) :
    (goWidth L = 8 ∨ goWidth L = 16 ∨ goWidth L = 32 ∨ goWidth L = 64) ∧ L ≤ goWidth L ∧
    ∀ w, (w = 8 ∨ w = 16 ∨ w = 32 ∨ w = 64) → L ≤ w → goWidth L ≤ w :=
  goWidth_spec L h

/-- Field type rule: bool for 1-bit signals, float32 for (32-bit) float signals, otherwise the signed/unsigned
integer type of the Go width. -/
theorem C11_type (s : DSignal) (h64 : s.length ≤ 64) :
    (s.length = 32 ∧ s.float = true → kindOf s = .float) ∧
    (s.length = 1 → kindOf s = .bool) ∧
    (s.length ≠ 1 → ¬ (s.length = 32 ∧ s.float = true) →
        kindOf s = (if s.signed then .sint (goWidth s.length) else .uint (goWidth s.length))) := by
  refine ⟨?_, ?_, ?_⟩
  · intro ⟨a, b⟩; simp [kindOf, a, b]
  · intro a; simp [kindOf, a]
  · intro a b
    unfold kindOf
    have c1 : (s.length == 32 && s.float) = false := by
      cases hf : s.float <;> simp_all
    have c2 : (s.length == 1) = false := by simpa using a
    cases hs : s.signed <;> simp [c1, c2, h64]

/-- Physical accessors exist exactly for multi-bit signals with a non-identity factor, an offset, or a declared
range that is narrower than the representable range. -/
theorem C11_physical (s : DSignal) :
    hasPhysical s = true ↔
      s.length ≠ 1 ∧
      ((f64Ne s.scale 0 = true ∧ f64Ne s.scale 0x3ff0000000000000 = true) ∨ f64Ne s.offset 0 = true ∨
       ((f64Ne s.min 0 = true ∨ f64Ne s.max 0 = true) ∧
        (if s.float then f64Lt (f64Neg f32MaxAsF64) s.min = true ∨ f64Lt s.max f32MaxAsF64 = true
         else if s.signed then f64Lt (f64OfInt (sInt64 (minSigned s.length))) s.min = true ∨
                               f64Lt s.max (f64OfInt (sInt64 (maxSigned s.length))) = true
         else f64Lt 0 s.min = true ∨ f64Lt s.max (f64OfNat (maxUnsigned s.length).toNat) = true))) := by
  unfold hasPhysical
  by_cases h1 : s.length = 1
  · simp [h1]
  · have c : (s.length == 1) = false := by simpa using h1
    simp only [c, Bool.false_eq_true, if_false, ne_eq, h1, not_false_eq_true, true_and, Bool.or_eq_true, Bool.and_eq_true]
    cases hf : s.float <;> cases hs : s.signed <;> simp [or_assoc]

end CanVerif
