import CanVerif.Props.C05Canon
import CanVerif.Props.C05Order
/-!
# C05 (inner orders, end to end)  Reordering *inside* definitions never changes the compiled database

`DefFine d d'`: the same definition with the signals of a `BO_`, the names of a `BU_` or the pairs of a `VAL_` listed in
another order.  For two definition lists related position by position by `DefFine`, `compile` gives the same database
(`C05_inner_order_invariant`), provided the first list is in the class (`Uniq (collect defs)`) and the database before
the final sort has pairwise distinct sort keys (`KeysDistinct`, the §4.2 conditions "IDs distinct", "node names
distinct", "(start bit, multiplexer value) distinct inside a message", "value descriptions of one signal have distinct
values").  Together with `C05_order_invariant` (permutations *of* the list) this is `C05_any_order`: first permute the
definitions, then reorder inside them.

Proof: `collect` maps `DefFine`-related lists to `DbFine`-related databases; every metadata step (`dStep`, equal to the
compiler's `metaStep` under `Uniq`) maps `DbFine`-related databases to `DbFine`-related ones, also when the step itself
is a `VAL_` with permuted pairs; `C05_canonical` then says the final sort erases what is left.
-/
namespace CanVerif

inductive DefFine : Def → Def → Prop
  | refl (d : Def) : DefFine d d
  | message (p : Pos) (id : Nat) (name : BStr) (size : Nat) (tx : BStr) (sigs sigs' : List SignalDef) :
      sigs.Perm sigs' → DefFine (.message p id name size tx sigs) (.message p id name size tx sigs')
  | nodes (p : Pos) (names names' : List BStr) : names.Perm names' → DefFine (.nodes p names) (.nodes p names')
  | valDescs (p : Pos) (obj : ObjType) (id : Nat) (sg env : BStr) (vds vds' : List ValueDesc) :
      vds.Perm vds' → DefFine (.valDescs p obj id sg env vds) (.valDescs p obj id sg env vds')

/-! ### the fine relations in "update" form -/

theorem SigFine.refl (s : DSignal) : SigFine s s := ⟨rfl, List.Perm.refl _⟩

theorem sigFine_iff (s t : DSignal) : SigFine s t ↔ ∃ v, t = { s with vds := v } ∧ s.vds.Perm v := by
  constructor
  · intro h
    refine ⟨t.vds, ?_, h.vds⟩
    have hr := h.rest
    cases s; cases t
    simp only [DSignal.mk.injEq] at hr ⊢
    obtain ⟨h1, h2, h3, h4, h5, h6, h7, h8, h9, h10, h11, h12, h13, h14, h15, _, h17, h18⟩ := hr
    exact ⟨h1.symm, h2.symm, h3.symm, h4.symm, h5.symm, h6.symm, h7.symm, h8.symm, h9.symm, h10.symm, h11.symm,
      h12.symm, h13.symm, h14.symm, h15.symm, trivial, h17.symm, h18.symm⟩
  · rintro ⟨v, rfl, hp⟩
    exact ⟨rfl, hp⟩

theorem Rel2.refl {α} (R : α → α → Prop) (hr : ∀ a, R a a) : ∀ l : List α, Rel2 R l l
  | [] => Rel2.nil
  | a :: l => Rel2.cons (hr a) (Rel2.refl R hr l)

theorem Rel2.map {α} (R : α → α → Prop) (f f' : α → α) (h : ∀ a b, R a b → R (f a) (f' b)) :
    ∀ (l l' : List α), Rel2 R l l' → Rel2 R (l.map f) (l'.map f') := by
  intro l l' hl
  induction hl with
  | nil => exact Rel2.nil
  | cons hab _ ih => exact Rel2.cons (h _ _ hab) ih

theorem Rel2.append {α} (R : α → α → Prop) {a b c d : List α} (h1 : Rel2 R a b) (h2 : Rel2 R c d) :
    Rel2 R (a ++ c) (b ++ d) := by
  induction h1 with
  | nil => exact h2
  | cons hab _ ih => exact Rel2.cons hab ih

theorem MsgFine.refl (m : DMessage) : MsgFine m m :=
  ⟨rfl, m.signals, List.Perm.refl _, Rel2.refl SigFine SigFine.refl _⟩

theorem msgFine_iff (m n : DMessage) :
    MsgFine m n ↔ ∃ ss, n = { m with signals := ss } ∧ ∃ l, m.signals.Perm l ∧ Rel2 SigFine l ss := by
  constructor
  · intro h
    refine ⟨n.signals, ?_, h.sigs⟩
    have hr := h.rest
    cases m; cases n
    simp only [DMessage.mk.injEq] at hr ⊢
    obtain ⟨h1, h2, h3, h4, h5, h6, _, h8, h9, h10⟩ := hr
    exact ⟨h1.symm, h2.symm, h3.symm, h4.symm, h5.symm, h6.symm, trivial, h8.symm, h9.symm, h10.symm⟩
  · rintro ⟨ss, rfl, hl⟩
    exact ⟨rfl, hl⟩

/-- a pair of signal updates that respects the fine relation -/
def SigPres (g g' : DSignal → DSignal) : Prop :=
  (∀ s t, SigFine s t → SigFine (g s) (g' t)) ∧ (∀ s, (g s).name = s.name) ∧ (∀ s, (g' s).name = s.name)

theorem sigFine_name {s t : DSignal} (h : SigFine s t) : s.name = t.name := by
  have := congrArg DSignal.name h.rest; simpa using this

theorem sigPres_of_vdsfree (g : DSignal → DSignal) (hn : ∀ s, (g s).name = s.name)
    (hv : ∀ s v, g { s with vds := v } = { g s with vds := v }) (hk : ∀ s, (g s).vds = s.vds) : SigPres g g := by
  refine ⟨?_, hn, hn⟩
  intro s t h
  obtain ⟨v, rfl, hp⟩ := (sigFine_iff s t).mp h
  rw [hv s v]
  exact ⟨rfl, by show (g s).vds.Perm v; rw [hk]; exact hp⟩

theorem sigPres_gVT (typ : Nat) : SigPres (gVT typ) (gVT typ) := by
  apply sigPres_of_vdsfree _ (gVT_name typ)
  · intro s v; cases s; simp only [gVT]; split <;> (try split) <;> (try split) <;> rfl
  · intro s; cases s; simp only [gVT]; split <;> (try split) <;> (try split) <;> rfl

theorem sigPres_gSigAttr (name : BStr) (i : Int) : SigPres (gSigAttr name i) (gSigAttr name i) := by
  apply sigPres_of_vdsfree _ (gSigAttr_name name i)
  · intro s v; cases s; simp only [gSigAttr]; split <;> rfl
  · intro s; cases s; simp only [gSigAttr]; split <;> rfl

theorem sigPres_gDesc (t : BStr) : SigPres (fun s => { s with desc := t }) (fun s => { s with desc := t }) :=
  sigPres_of_vdsfree _ (fun _ => rfl) (fun _ _ => rfl) (fun _ => rfl)

theorem sigPres_gVds (a a' : List DVal) (hp : a.Perm a') :
    SigPres (fun s => { s with vds := s.vds ++ a }) (fun s => { s with vds := s.vds ++ a' }) := by
  refine ⟨?_, fun _ => rfl, fun _ => rfl⟩
  intro s t h
  obtain ⟨v, rfl, hv⟩ := (sigFine_iff s t).mp h
  exact (sigFine_iff _ _).mpr ⟨v ++ a', rfl, hv.append hp⟩

/-- a pair of message updates that respects the fine relation and keeps the ID -/
def MsgPres (F F' : DMessage → DMessage) : Prop :=
  (∀ m n, MsgFine m n → MsgFine (F m) (F' n)) ∧ (∀ m, (F m).id = m.id) ∧ (∀ m, (F' m).id = m.id)

theorem msgPres_mapSigIn (sg : BStr) (g g' : DSignal → DSignal) (hg : SigPres g g') :
    MsgPres (mapSigIn sg g) (mapSigIn sg g') := by
  refine ⟨?_, fun _ => rfl, fun _ => rfl⟩
  intro m n h
  obtain ⟨ss, rfl, l, hp, hl⟩ := (msgFine_iff m n).mp h
  apply (msgFine_iff _ _).mpr
  refine ⟨ss.map (fun s => if s.name == sg then g' s else s), rfl,
    l.map (fun s => if s.name == sg then g s else s), by simpa [mapSigIn] using hp.map _, ?_⟩
  apply Rel2.map SigFine _ _ _ _ _ hl
  intro a b hab
  rw [← sigFine_name hab]
  split
  · exact hg.1 a b hab
  · exact hab

theorem msgPres_field (F : DMessage → DMessage) (hid : ∀ m, (F m).id = m.id)
    (hs : ∀ m ss, F { m with signals := ss } = { F m with signals := ss }) (hk : ∀ m, (F m).signals = m.signals) :
    MsgPres F F := by
  refine ⟨?_, hid, hid⟩
  intro m n h
  obtain ⟨ss, rfl, l, hp, hl⟩ := (msgFine_iff m n).mp h
  rw [hs m ss]
  exact ⟨rfl, l, by show (F m).signals.Perm l; rw [hk]; exact hp, hl⟩

theorem msgPres_fMsgAttr (name : BStr) (i : Int) (sv : BStr) : MsgPres (fMsgAttr name i sv) (fMsgAttr name i sv) := by
  apply msgPres_field _ (fMsgAttr_id name i sv)
  · intro m ss; cases m; simp only [fMsgAttr]; split <;> (try split) <;> (try split) <;> rfl
  · intro m; cases m; simp only [fMsgAttr]; split <;> (try split) <;> (try split) <;> rfl

/-! ### databases -/

theorem dbFine_mapMsg (a b : Database) (h : DbFine a b) (id : Nat) (F F' : DMessage → DMessage) (hF : MsgPres F F') :
    DbFine (onMsgs a (mapMsg id F)) (onMsgs b (mapMsg id F')) := by
  obtain ⟨l, hp, hl⟩ := h.msgs
  refine ⟨h.version, h.nodes, l.map (fun m => if m.id == id then F m else m), ?_, ?_⟩
  · simp only [onMsgs, mapMsg]; exact hp.map _
  · simp only [onMsgs, mapMsg]
    apply Rel2.map MsgFine _ _ _ _ _ hl
    intro m n hmn
    rw [← hmn.id]
    split
    · exact hF.1 m n hmn
    · exact hmn

theorem dbFine_mapNode (a b : Database) (h : DbFine a b) (n : BStr) (hh : DNode → DNode) :
    DbFine { a with nodes := mapNode n hh a.nodes } { b with nodes := mapNode n hh b.nodes } :=
  ⟨h.version, by simp only [mapNode]; exact h.nodes.map _, h.msgs⟩

theorem dStep_fine (d d' : Def) (hd : DefFine d d') (a b : Database) (h : DbFine a b) :
    DbFine (dStep d a) (dStep d' b) := by
  cases hd with
  | message p id name size tx sigs sigs' hp => exact h
  | nodes p names names' hp => exact h
  | valDescs p obj id sg env vds vds' hp =>
    simp only [dStep]
    split
    · exact h
    · split
      · exact h
      · exact dbFine_mapMsg a b h _ _ _ (msgPres_mapSigIn sg _ _ (sigPres_gVds _ _ (hp.map _)))
  | refl d =>
    cases d with
    | sigValType p id sg typ => exact dbFine_mapMsg a b h _ _ _ (msgPres_mapSigIn sg _ _ (sigPres_gVT typ))
    | comment p obj node id sg env text =>
      cases obj <;> simp only [dStep] <;> (try split) <;>
        first
        | exact h
        | exact dbFine_mapNode a b h _ _
        | exact dbFine_mapMsg a b h _ _ _ (msgPres_field _ (fun _ => rfl) (fun _ _ => rfl) (fun _ => rfl))
        | exact dbFine_mapMsg a b h _ _ _ (msgPres_mapSigIn sg _ _ (sigPres_gDesc text))
    | valDescs p obj id sg env vds =>
      simp only [dStep]
      split
      · exact h
      · split
        · exact h
        · exact dbFine_mapMsg a b h _ _ _ (msgPres_mapSigIn sg _ _ (sigPres_gVds _ _ (List.Perm.refl _)))
    | attrValue p name obj id sg node env i f sv =>
      cases obj <;> simp only [dStep] <;>
        first
        | exact h
        | exact dbFine_mapMsg a b h _ _ _ (msgPres_fMsgAttr name i sv)
        | exact dbFine_mapMsg a b h _ _ _ (msgPres_mapSigIn sg _ _ (sigPres_gSigAttr name i))
    | _ => exact h

theorem fold_dStep_fine : ∀ (l l' : List Def), Rel2 DefFine l l' → ∀ (a b : Database), DbFine a b →
    DbFine (l.foldl (fun db d => dStep d db) a) (l'.foldl (fun db d => dStep d db) b) := by
  intro l l' h
  induction h with
  | nil => intro a b h; exact h
  | cons hd _ ih => intro a b h; exact ih _ _ (dStep_fine _ _ hd a b h)

/-! ### `collect` -/

theorem DbFine.refl (a : Database) : DbFine a a :=
  ⟨rfl, List.Perm.refl _, a.messages, List.Perm.refl _, Rel2.refl MsgFine MsgFine.refl _⟩

theorem msgOf_fine (d d' : Def) (h : DefFine d d') :
    (msgOf d = none ∧ msgOf d' = none) ∨ ∃ m n, msgOf d = some m ∧ msgOf d' = some n ∧ MsgFine m n := by
  cases h with
  | refl d =>
    cases hm : msgOf d with
    | none => exact Or.inl ⟨rfl, rfl⟩
    | some m => exact Or.inr ⟨m, m, rfl, rfl, MsgFine.refl m⟩
  | message p id name size tx sigs sigs' hp =>
    simp only [msgOf]
    split
    · exact Or.inl ⟨rfl, rfl⟩
    · refine Or.inr ⟨_, _, rfl, rfl, rfl, sigs'.map signalOfDef, hp.map _, Rel2.refl SigFine SigFine.refl _⟩
  | nodes p names names' hp => exact Or.inl ⟨rfl, rfl⟩
  | valDescs p obj id sg env vds vds' hp => exact Or.inl ⟨rfl, rfl⟩

theorem collect_fine : ∀ (l l' : List Def), Rel2 DefFine l l' →
    Rel2 MsgFine (l.filterMap msgOf) (l'.filterMap msgOf) ∧ (l.flatMap nodesOf).Perm (l'.flatMap nodesOf) ∧
    l.filterMap verVal = l'.filterMap verVal := by
  intro l l' h
  induction h with
  | nil => exact ⟨Rel2.nil, List.Perm.refl _, rfl⟩
  | @cons d d' r r' hd _ ih =>
    obtain ⟨i1, i2, i3⟩ := ih
    refine ⟨?_, ?_, ?_⟩
    · simp only [List.filterMap_cons]
      rcases msgOf_fine d d' hd with ⟨e1, e2⟩ | ⟨m, n, e1, e2, hmn⟩
      · rw [e1, e2]; exact i1
      · rw [e1, e2]; exact Rel2.cons hmn i1
    · simp only [List.flatMap_cons]
      apply List.Perm.append _ i2
      cases hd with
      | nodes p names names' hp => simp only [nodesOf]; exact hp.map _
      | _ => exact List.Perm.refl _
    · simp only [List.filterMap_cons]
      have : verVal d = verVal d' := by cases hd <;> rfl
      rw [this, i3]

theorem collect_dbFine (l l' : List Def) (h : Rel2 DefFine l l') : DbFine (collect l) (collect l') := by
  obtain ⟨h1, h2, h3⟩ := collect_fine l l' h
  rw [collect_eq, collect_eq]
  exact ⟨by simp only [h3], h2, _, List.Perm.refl _, h1⟩

theorem Rel2.perm_of {α} {R : α → α → Prop} (f : α → β) (hf : ∀ a b, R a b → f a = f b) :
    ∀ {l l' : List α}, Rel2 R l l' → l.map f = l'.map f := by
  intro l l' h
  induction h with
  | nil => rfl
  | cons hab _ ih => simp only [List.map_cons, hf _ _ hab, ih]

theorem Rel2.mem_right {α} {R : α → α → Prop} {l l' : List α} (h : Rel2 R l l') (b : α) (hb : b ∈ l') :
    ∃ a ∈ l, R a b := by
  induction h with
  | nil => cases hb
  | @cons x y xs ys hxy _ ih =>
    rcases List.mem_cons.mp hb with rfl | hb'
    · exact ⟨x, List.mem_cons_self, hxy⟩
    · obtain ⟨a, ha, hr⟩ := ih hb'
      exact ⟨a, List.mem_cons_of_mem _ ha, hr⟩

/-- the class condition travels along the fine relation -/
theorem uniq_of_fine (a b : Database) (h : DbFine a b) (hu : Uniq a) : Uniq b := by
  obtain ⟨l, hp, hl⟩ := h.msgs
  refine ⟨?_, ?_, ?_⟩
  · rw [← Rel2.perm_of (·.id) (fun _ _ h => h.id) hl]
    exact (hp.map (·.id)).nodup_iff.mp hu.ids
  · intro n hn
    obtain ⟨m, hm, hmn⟩ := hl.mem_right n hn
    have hm' : m ∈ a.messages := hp.mem_iff.mpr hm
    obtain ⟨l2, hp2, hl2⟩ := hmn.sigs
    rw [← Rel2.perm_of (·.name) (fun _ _ h => sigFine_name h) hl2]
    exact (hp2.map (·.name)).nodup_iff.mp (hu.sigs m hm')
  · exact (h.nodes.map (·.name)).nodup_iff.mp hu.nodes

/-- **Reordering inside definitions never changes the compiled database.** -/
theorem C05_inner_order_invariant (defs defs' : List Def) (hf : Rel2 DefFine defs defs')
    (hu : Uniq (collect defs)) (hk : KeysDistinct (addMetadata defs (collect defs)).1) :
    (compile defs).1 = (compile defs').1 := by
  have e0 := collect_dbFine defs defs' hf
  have hu' := uniq_of_fine _ _ e0 hu
  have a1 := addMetadata_db defs (collect defs, []) hu
  have a2 := addMetadata_db defs' (collect defs', []) hu'
  simp only at a1 a2
  unfold compile
  show sortDescriptors (addMetadata defs (collect defs)).1 = sortDescriptors (addMetadata defs' (collect defs')).1
  unfold addMetadata at hk ⊢
  rw [a1] at hk
  rw [a1, a2]
  exact C05_canonical _ _ (fold_dStep_fine defs defs' hf _ _ e0) hk

/-- **Any order**: permute the definitions (class of `C05_order_invariant`), then reorder inside them. -/
theorem C05_any_order (defs defs₁ defs' : List Def) (hp : defs.Perm defs₁) (hf : Rel2 DefFine defs₁ defs')
    (hu : Uniq (collect defs)) (hv : (defs.filterMap verVal).length ≤ 1) (hk : defs.Pairwise KeyCompat)
    (hu₁ : Uniq (collect defs₁)) (hk₁ : KeysDistinct (addMetadata defs₁ (collect defs₁)).1) :
    (compile defs).1 = (compile defs').1 :=
  (C05_order_invariant defs defs₁ hp hu hv hk).trans (C05_inner_order_invariant defs₁ defs' hf hu₁ hk₁)

/-- non-vacuity: a message with two signals, a node list and a value-description list, each in two orders -/
def sdA : SignalDef := { pos := default, name := bs "A", start := 0, size := 4 }
def sdB : SignalDef := { pos := default, name := bs "B", start := 4, size := 4 }
def inDefs (flip : Bool) : List Def :=
  [.nodes default (if flip then [bs "N2", bs "N1"] else [bs "N1", bs "N2"]),
   .message default 100 (bs "M") 8 (bs "N1") (if flip then [sdB, sdA] else [sdA, sdB]),
   .valDescs default .signal 100 (bs "A") [] (if flip then [⟨default, 0x3ff0000000000000, bs "one"⟩, ⟨default, 0, bs "zero"⟩]
                                                else [⟨default, 0, bs "zero"⟩, ⟨default, 0x3ff0000000000000, bs "one"⟩])]

example : Rel2 DefFine (inDefs false) (inDefs true) :=
  Rel2.cons (DefFine.nodes _ _ _ (List.Perm.swap _ _ _))
    (Rel2.cons (DefFine.message _ _ _ _ _ _ _ (List.Perm.swap _ _ _))
      (Rel2.cons (DefFine.valDescs _ _ _ _ _ _ _ (List.Perm.swap _ _ _)) Rel2.nil))

example : Uniq (collect (inDefs false)) := ⟨by decide, by decide, by decide⟩

example : KeysDistinct (addMetadata (inDefs false) (collect (inDefs false))).1 :=
  ⟨by decide +kernel, by decide +kernel, by decide +kernel, by decide +kernel⟩

example : (compile (inDefs false)).1 = (compile (inDefs true)).1 := by decide +kernel

end CanVerif
