import CanVerif.Lemmas.GenSem
import CanVerif.Lemmas.GenRoundTrip
import CanVerif.Props.C03
/-!
# C10  A generated message is always a valid, self-consistent frame after any calls

`GState`, `newState`, `setRaw`, `setPhys`, `unmarshalFrame`, `frameOf` (Model/GenSem.lean) are the denotation of the
generated struct and its methods.  `Inv m st` says every stored raw value lies in its signal's representable range.
Proved for every descriptor and every argument: the frame carries the declared ID/length/format and is never remote
(`C10_frame_header`), validation accepts it for in-class descriptors (`C10_frame_valid`), raw setters re-establish the
invariant whatever value of the accessor type is passed (`C10_setRaw_inv`), construction/reset establish it when the
declared start values are in range.  The physical setter case is `_partial`: it is false for scaled unsigned signals
of >= 54 bits (signed >= 55), see known finding F1, and needs C09's rounding analysis otherwise; the full statement is
`C10_inv_all_statement`.  For integer and bool signals in a §4.3 layout (`MsgOk`): a successful unmarshal keeps the
invariant (`C10_unmarshal_inv`); every encoded field decodes from the frame as the stored value, so no signal's bits leak
into another's (`C10_no_leak`); positions outside the encoded fields are zero (`C10_zero_elsewhere`); unmarshalling the
frame into any message of the type and marshalling again reproduces it (`C10_reencode`), hence copy-from yields the
identical frame (`C10_copy`; values are immutable in the model, so aliasing cannot be expressed and is decided per run
on the generated code), and all histories of reset, raw setters, unmarshal and copy keep the invariant
(`C10_inv_all_partial`).  Float32 signals are outside `MsgOk` (their NaN payloads are quieted by the float64 round
trip of the generated code) and are decided per run.
-/
namespace CanVerif

/-- The produced frame carries the message's ID, length and ID format and is never a remote frame. -/
theorem C10_frame_header (m : DMessage) (st : GState) :
    (frameOf m st).id = BitVec.ofNat 32 m.id ∧ (frameOf m st).length = BitVec.ofNat 8 m.length ∧
    (frameOf m st).isExtended = m.extended ∧ (frameOf m st).isRemote = false := by
  unfold frameOf; simp

/-- … and passes frame validation whenever the descriptor is in class (ID fits its format, length 0..8). -/
theorem C10_frame_valid (m : DMessage) (st : GState) (hlen : m.length ≤ 8)
    (hid : if m.extended then m.id ≤ 0x1fffffff else m.id ≤ 0x7ff) :
    (frameOf m st).validate = true := by
  obtain ⟨h1, h2, h3, _⟩ := C10_frame_header m st
  rw [C06_validate_iff]
  rw [h1, h2, h3]
  have l8 : (BitVec.ofNat 8 m.length).toNat = m.length := by simp; omega
  refine ⟨?_, ?_, by rw [l8]; exact hlen⟩
  · intro he; simp only [he, if_true] at hid; simp; omega
  · intro he; simp only [he, Bool.false_eq_true, if_false] at hid; simp; omega
where
  C06_validate_iff {f : Frame} : f.validate = true ↔
      (f.isExtended = true → f.id.toNat ≤ 0x1fffffff) ∧ (f.isExtended = false → f.id.toNat ≤ 0x7ff) ∧
      f.length.toNat ≤ 8 := by
    unfold Frame.validate maxExtendedID maxID
    cases he : f.isExtended <;> simp [BitVec.lt_def, BitVec.le_def] <;> omega

/-- Raw setters: whatever argument is passed, the stored value is inside the signal's representable range, and the
invariant of the whole message is preserved (integer and bool signals of 1..64 bits). -/
theorem C10_setRaw_inv (m : DMessage) (st : GState) (i : Nat) (s : DSignal) (v : Int)
    (hinv : Inv m st = true) (hs : m.signals[i]? = some s)
    (h1 : 1 ≤ s.length) (h64 : s.length ≤ 64) (hk : kindOf s ≠ .float) :
    Inv m ⟨setAt st.vals i (setRaw s v)⟩ = true := by
  unfold Inv at hinv ⊢
  simp only [Bool.and_eq_true, beq_iff_eq] at hinv ⊢
  have := inv_setAt m.signals st.vals i s (setRaw s v) hinv.1 hinv.2 hs (setRaw_inRange s v h1 h64 hk)
  exact ⟨this.2, this.1⟩

/-- Construction and Reset establish the invariant when every declared start value is in range (class 4.3, item 4). -/
theorem C10_inv_init (m : DMessage) (h : ∀ s ∈ m.signals, rawInRange s (resetVal s) = true) :
    Inv m (newState m) = true := by
  unfold Inv newState
  simp only [List.length_map, beq_self_eq_true, Bool.true_and, List.all_eq_true]
  intro p hp
  have hz : ∀ (l : List DSignal), p ∈ l.zip (l.map resetVal) → p.1 ∈ l ∧ p.2 = resetVal p.1 := by
    intro l
    induction l with
    | nil => simp
    | cons a as ih =>
      simp only [List.map_cons, List.zip_cons_cons, List.mem_cons]
      rintro (rfl | hq)
      · exact ⟨Or.inl rfl, rfl⟩
      · exact ⟨Or.inr (ih hq).1, (ih hq).2⟩
  obtain ⟨h1, h2⟩ := hz m.signals hp
  rw [h2]; exact h p.1 h1

/-- Sequences of resets and raw setters never leave the invariant (the part of "after any sequence of calls" that is
proved; unmarshal and physical setters are not in this list). -/
inductive SafeOp
  | reset
  | setRaw (i : Nat) (v : Int)
  | unmarshal (f : Frame)
  | copyFrom (src : GState)   -- copy from a message in any state whatsoever

/-- A successful unmarshal keeps every field inside its representable range. -/
theorem C10_unmarshal_inv (m : DMessage) (st st' : GState) (f : Frame) (hok : ∀ s ∈ m.signals, SigOk s)
    (hinv : Inv m st = true) (h : unmarshalFrame m st f = some st') : Inv m st' = true :=
  unmarshalFrame_inv m st st' f hok hinv h

/-- … and so does copy-from, whatever the source holds. -/
theorem C10_copy_inv (m : DMessage) (dst src : GState) (hok : ∀ s ∈ m.signals, SigOk s)
    (hinv : Inv m dst = true) : Inv m (copyFrom m dst src) = true := by
  unfold copyFrom
  cases h : unmarshalFrame m dst (frameOf m src) with
  | none => exact hinv
  | some st' => exact unmarshalFrame_inv m dst st' _ hok hinv h

def applySafe (m : DMessage) (st : GState) : SafeOp → GState
  | .reset => newState m
  | .setRaw i v => match m.signals[i]? with
    | some s => ⟨setAt st.vals i (setRaw s v)⟩
    | none => st
  | .unmarshal f => (unmarshalFrame m st f).getD st
  | .copyFrom src => copyFrom m st src

/-- one safe step from any state inside the invariant stays inside it -/
theorem C10_safe_step (m : DMessage) (st : GState) (op : SafeOp)
    (hdef : ∀ s ∈ m.signals, rawInRange s (resetVal s) = true)
    (hcls : ∀ s ∈ m.signals, SigOk s) (hi : Inv m st = true) : Inv m (applySafe m st op) = true := by
  have hk : ∀ s ∈ m.signals, kindOf s ≠ .float := by
    intro s hs hk
    have hf := (hcls s hs).nofloat
    unfold kindOf at hk
    simp only [hf, Bool.and_false, Bool.false_eq_true, if_false] at hk
    repeat' split at hk
    all_goals cases hk
  cases op with
  | reset => exact C10_inv_init m hdef
  | setRaw i v =>
    show Inv m (match m.signals[i]? with
      | some s => ⟨setAt st.vals i (setRaw s v)⟩
      | none => st) = true
    cases hs : m.signals[i]? with
    | none => exact hi
    | some s =>
      have hm : s ∈ m.signals := List.mem_of_getElem? hs
      exact C10_setRaw_inv m st i s v hi hs (hcls s hm).l1 (hcls s hm).l64 (hk s hm)
  | unmarshal f =>
    show Inv m ((unmarshalFrame m st f).getD st) = true
    cases h : unmarshalFrame m st f with
    | none => exact hi
    | some st' => exact C10_unmarshal_inv m st st' f hcls hi h
  | copyFrom src => exact C10_copy_inv m st src hcls hi

theorem C10_inv_all_partial (m : DMessage) (ops : List SafeOp)
    (hdef : ∀ s ∈ m.signals, rawInRange s (resetVal s) = true)
    (hcls : ∀ s ∈ m.signals, SigOk s) :
    Inv m (ops.foldl (applySafe m) (newState m)) = true := by
  have : ∀ (l : List SafeOp) st, Inv m st = true → Inv m (l.foldl (applySafe m) st) = true := by
    intro l
    induction l with
    | nil => intro st h; exact h
    | cons o os ih => intro st h; exact ih _ (C10_safe_step m st o hdef hcls h)
  exact this ops _ (C10_inv_init m hdef)

/-- No leak: in the produced frame every encoded field (plain signals, and multiplexed signals whose selector equals
the stored multiplexer value) decodes, at its own layout, to exactly the stored value: the bits of one signal never
disturb another's. -/
theorem C10_no_leak (m : DMessage) (st : GState) (hm : MsgOk m) (hinv : Inv m st = true)
    (p : DSignal × Raw) (hp : p ∈ m.signals.zip st.vals)
    (hc : p.1.muxed = false ∨ c2of m st.vals p.1 = true) : unmarshalField p.1 (frameOf m st).data = p.2 :=
  frame_read m st hm hinv p hp (hc.imp (fun h => by unfold c1; simp [h]) id)

/-- … and every payload position outside the encoded fields is zero. -/
theorem C10_zero_elsewhere (m : DMessage) (st : GState) (hm : MsgOk m) (hinv : Inv m st = true) (k : Nat)
    (hout : ∀ p ∈ m.signals.zip st.vals, (p.1.muxed = false ∨ c2of m st.vals p.1 = true) →
      ∀ i, i < p.1.length → p.1.rng.pos i ≠ k) : payloadBit (frameOf m st).data k = false :=
  C03_zero_elsewhere m st hm hinv k hout

/-- Unmarshalling a message's own frame into any message of the type (fresh or not) and marshalling again
reproduces the identical frame. -/
theorem C10_reencode (m : DMessage) (st st0 st' : GState) (hm : MsgOk m) (hinv : Inv m st = true)
    (hlen0 : st0.vals.length = m.signals.length)
    (h : unmarshalFrame m st0 (frameOf m st) = some st') : frameOf m st' = frameOf m st :=
  reencode m st st0 st' hm hinv hlen0 h

/-- A message's own frame is always accepted by its `UnmarshalFrame` (descriptor in class). -/
theorem C10_own_frame_accepted (m : DMessage) (st st0 : GState) (hlen : m.length ≤ 8) (hid : m.id ≤ 0x1fffffff) :
    (unmarshalFrame m st0 (frameOf m st)).isSome = true := by
  rw [C03_accept_iff]
  obtain ⟨h1, h2, h3, h4⟩ := C10_frame_header m st
  rw [h1, h2, h3, h4]
  refine ⟨?_, ?_, rfl, rfl⟩
  · simp; omega
  · simp; omega

/-- Copy-from yields a message with the identical frame. -/
theorem C10_copy (m : DMessage) (dst src : GState) (hm : MsgOk m) (hinv : Inv m src = true)
    (hlen0 : dst.vals.length = m.signals.length) (hlen : m.length ≤ 8) (hid : m.id ≤ 0x1fffffff) :
    frameOf m (copyFrom m dst src) = frameOf m src := by
  unfold copyFrom
  have hs := C10_own_frame_accepted m src dst hlen hid
  cases h : unmarshalFrame m dst (frameOf m src) with
  | none => rw [h] at hs; cases hs
  | some st' => exact reencode m src dst st' hm hinv hlen0 h

/-- Full statement (not proved; F1 is a counterexample on the unchanged tree): with physical setters and unmarshal
included, every reachable state satisfies the invariant. -/
def C10_inv_all_statement : Prop :=
  ∀ (m : DMessage) (st : GState) (i : Nat) (s : DSignal) (x : F64),
    Inv m st = true → m.signals[i]? = some s → hasPhysical s = true → f64IsNaN x = false →
    Inv m ⟨setAt st.vals i (setPhys s x)⟩ = true

/-- non-vacuity of `MsgOk`: a multiplexer, two multiplexed signals sharing bits 8..15 under different selectors, and
a signed plain signal -/
def exSig (start len : Nat) (signed mux muxed : Bool) (mv : Nat) : DSignal :=
  { name := [], start := start, length := len, bigEndian := false, signed := signed, mux := mux, muxed := muxed,
    muxValue := mv, offset := 0, scale := 0x3ff0000000000000, min := 0, max := 0, unit := [], receivers := [] }

def exMsg : DMessage :=
  { name := [], id := 0x123, extended := false, length := 8, sender := [],
    signals := [exSig 0 2 false true false 0, exSig 8 8 false false true 0, exSig 8 8 true false true 1,
                exSig 16 12 true false false 0] }

theorem exSig_ok (start len : Nat) (signed mux muxed : Bool) (mv : Nat) (h1 : 1 ≤ len) (h2 : start + len ≤ 64) :
    SigOk (exSig start len signed mux muxed mv) :=
  ⟨h1, by show len ≤ 64; omega, by show Range.Fits _; unfold Range.Fits FitsLE; simp [exSig, DSignal.sig, Sig.range]; omega, rfl⟩

theorem exSig_disj (s1 l1 s2 l2 : Nat) (a b c d e f : Bool) (m1 m2 : Nat) (h : s1 + l1 ≤ s2 ∨ s2 + l2 ≤ s1) :
    (exSig s1 l1 a b c m1).rng.Disjoint (exSig s2 l2 d e f m2).rng := by
  intro i j hi hj
  simp only [DSignal.rng, DSignal.sig, Sig.range, exSig, Range.pos] at *
  simp only [Bool.false_eq_true, if_false]
  omega

example : MsgOk exMsg := by
  refine ⟨?_, ?_, ?_⟩
  · intro s hs
    simp only [exMsg, List.mem_cons, List.mem_nil_iff, or_false] at hs
    rcases hs with rfl | rfl | rfl | rfl <;> exact exSig_ok _ _ _ _ _ _ (by decide) (by decide)
  · simp only [exMsg, List.pairwise_cons, List.mem_cons, List.mem_nil_iff, or_false, forall_eq_or_imp, forall_eq,
      List.Pairwise.nil, and_true, List.not_mem_nil, false_imp_iff, implies_true]
    refine ⟨⟨?_, ?_, ?_⟩, ⟨?_, ?_⟩, ?_⟩
    · intro _; exact exSig_disj _ _ _ _ _ _ _ _ _ _ _ _ (by decide)
    · intro _; exact exSig_disj _ _ _ _ _ _ _ _ _ _ _ _ (by decide)
    · intro _; exact exSig_disj _ _ _ _ _ _ _ _ _ _ _ _ (by decide)
    · intro h; simp [exSig] at h
    · intro _; exact exSig_disj _ _ _ _ _ _ _ _ _ _ _ _ (by decide)
    · intro _; exact exSig_disj _ _ _ _ _ _ _ _ _ _ _ _ (by decide)
  · intro s hs hmux
    simp only [exMsg, List.mem_cons, List.mem_nil_iff, or_false] at hs
    rcases hs with rfl | rfl | rfl | rfl <;> simp [exSig] at hmux ⊢

example : Inv exMsg ⟨[1, 200, -100, -2048]⟩ = true := by decide

/-- non-vacuity: a two-signal message whose start values are in range -/
example : Inv
    { name := [], id := 1, extended := false, length := 8, sender := [],
      signals := [{ name := [], start := 0, length := 12, bigEndian := false, signed := true, mux := false, muxed := false,
                    muxValue := 0, offset := 0, scale := 0x3ff0000000000000, min := 0, max := 0, unit := [], receivers := [] }] }
    ⟨[-2048]⟩ = true := by decide

end CanVerif
