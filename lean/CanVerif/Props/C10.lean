import CanVerif.Lemmas.GenSem
/-!
# C10  A generated message is always a valid, self-consistent frame after any calls

`GState`, `newState`, `setRaw`, `setPhys`, `unmarshalFrame`, `frameOf` (Model/GenSem.lean) are the denotation of the
generated struct and its methods.  `Inv m st` says every stored raw value lies in its signal's representable range.
Proved for every descriptor and every argument: the frame carries the declared ID/length/format and is never remote
(`C10_frame_header`), validation accepts it for in-class descriptors (`C10_frame_valid`), raw setters re-establish the
invariant whatever value of the accessor type is passed (`C10_setRaw_inv`), construction/reset establish it when the
declared start values are in range.  The physical setter case is `_partial`: it is false for scaled unsigned signals
of >= 54 bits (signed >= 55), see known finding F1, and needs C09's rounding analysis otherwise; the full statement is
`C10_inv_all_statement`.  Unmarshal, re-encode, copy and the no-leak clause are decided per run on the compiled
generated code (bin/props.py C10).
-/
namespace CanVerif

/-- The produced frame carries the message's ID, length and ID format and is never a remote frame. -/
theorem C10_frame_header (m : DMessage) (st : GState) :
    (frameOf m st).id = BitVec.ofNat 32 m.id ∧ (frameOf m st).length = BitVec.ofNat 8 m.length ∧
    (frameOf m st).isExtended = m.extended ∧ (frameOf m st).isRemote = false := by
  unfold frameOf; simp

/-- … and passes frame validation whenever the descriptor is in class (ID fits its format, length 0..8). -/
theorem C10_frame_valid (m : DMessage) (st : GState) (hlen : m.length ≤ 8)
    (hid : if m.extended then m.id ≤ 0x1fffffff else m.id ≤ 0x7ff) :
    (frameOf m st).validate = true := by
  obtain ⟨h1, h2, h3, _⟩ := C10_frame_header m st
  rw [C06_validate_iff]
  rw [h1, h2, h3]
  have l8 : (BitVec.ofNat 8 m.length).toNat = m.length := by simp; omega
  refine ⟨?_, ?_, by rw [l8]; exact hlen⟩
  · intro he; simp only [he, if_true] at hid; simp; omega
  · intro he; simp only [he, Bool.false_eq_true, if_false] at hid; simp; omega
where
  C06_validate_iff {f : Frame} : f.validate = true ↔
      (f.isExtended = true → f.id.toNat ≤ 0x1fffffff) ∧ (f.isExtended = false → f.id.toNat ≤ 0x7ff) ∧
      f.length.toNat ≤ 8 := by
    unfold Frame.validate maxExtendedID maxID
    cases he : f.isExtended <;> simp [BitVec.lt_def, BitVec.le_def] <;> omega

/-- Raw setters: whatever argument is passed, the stored value is inside the signal's representable range, and the
invariant of the whole message is preserved (integer and bool signals of 1..64 bits). -/
theorem C10_setRaw_inv (m : DMessage) (st : GState) (i : Nat) (s : DSignal) (v : Int)
    (hinv : Inv m st = true) (hs : m.signals[i]? = some s)
    (h1 : 1 ≤ s.length) (h64 : s.length ≤ 64) (hk : kindOf s ≠ .float) :
    Inv m ⟨setAt st.vals i (setRaw s v)⟩ = true := by
  unfold Inv at hinv ⊢
  simp only [Bool.and_eq_true, beq_iff_eq] at hinv ⊢
  have := inv_setAt m.signals st.vals i s (setRaw s v) hinv.1 hinv.2 hs (setRaw_inRange s v h1 h64 hk)
  exact ⟨this.2, this.1⟩

/-- Construction and Reset establish the invariant when every declared start value is in range (class 4.3, item 4). -/
theorem C10_inv_init (m : DMessage) (h : ∀ s ∈ m.signals, rawInRange s (resetVal s) = true) :
    Inv m (newState m) = true := by
  unfold Inv newState
  simp only [List.length_map, beq_self_eq_true, Bool.true_and, List.all_eq_true]
  intro p hp
  have hz : ∀ (l : List DSignal), p ∈ l.zip (l.map resetVal) → p.1 ∈ l ∧ p.2 = resetVal p.1 := by
    intro l
    induction l with
    | nil => simp
    | cons a as ih =>
      simp only [List.map_cons, List.zip_cons_cons, List.mem_cons]
      rintro (rfl | hq)
      · exact ⟨Or.inl rfl, rfl⟩
      · exact ⟨Or.inr (ih hq).1, (ih hq).2⟩
  obtain ⟨h1, h2⟩ := hz m.signals hp
  rw [h2]; exact h p.1 h1

/-- Sequences of resets and raw setters never leave the invariant (the part of "after any sequence of calls" that is
proved; unmarshal and physical setters are not in this list). -/
inductive SafeOp
  | reset
  | setRaw (i : Nat) (v : Int)

def applySafe (m : DMessage) (st : GState) : SafeOp → GState
  | .reset => newState m
  | .setRaw i v => match m.signals[i]? with
    | some s => ⟨setAt st.vals i (setRaw s v)⟩
    | none => st

theorem C10_inv_all_partial (m : DMessage) (ops : List SafeOp)
    (hdef : ∀ s ∈ m.signals, rawInRange s (resetVal s) = true)
    (hcls : ∀ s ∈ m.signals, 1 ≤ s.length ∧ s.length ≤ 64 ∧ kindOf s ≠ .float) :
    Inv m (ops.foldl (applySafe m) (newState m)) = true := by
  have hstep : ∀ st op, Inv m st = true → Inv m (applySafe m st op) = true := by
    intro st op hi
    cases op with
    | reset => exact C10_inv_init m hdef
    | setRaw i v =>
      show Inv m (match m.signals[i]? with
        | some s => ⟨setAt st.vals i (setRaw s v)⟩
        | none => st) = true
      cases hs : m.signals[i]? with
      | none => exact hi
      | some s =>
        have hm : s ∈ m.signals := List.mem_of_getElem? hs
        obtain ⟨a, b, c⟩ := hcls s hm
        exact C10_setRaw_inv m st i s v hi hs a b c
  have : ∀ (l : List SafeOp) st, Inv m st = true → Inv m (l.foldl (applySafe m) st) = true := by
    intro l
    induction l with
    | nil => intro st h; exact h
    | cons o os ih => intro st h; exact ih _ (hstep st o h)
  exact this ops _ (C10_inv_init m hdef)

/-- Full statement (not proved; F1 is a counterexample on the unchanged tree): with physical setters and unmarshal
included, every reachable state satisfies the invariant. -/
def C10_inv_all_statement : Prop :=
  ∀ (m : DMessage) (st : GState) (i : Nat) (s : DSignal) (x : F64),
    Inv m st = true → m.signals[i]? = some s → hasPhysical s = true → f64IsNaN x = false →
    Inv m ⟨setAt st.vals i (setPhys s x)⟩ = true

/-- non-vacuity: a two-signal message whose start values are in range -/
example : Inv
    { name := [], id := 1, extended := false, length := 8, sender := [],
      signals := [{ name := [], start := 0, length := 12, bigEndian := false, signed := true, mux := false, muxed := false,
                    muxValue := 0, offset := 0, scale := 0x3ff0000000000000, min := 0, max := 0, unit := [], receivers := [] }] }
    ⟨[-2048]⟩ = true := by decide

end CanVerif
