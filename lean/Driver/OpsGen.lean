import CanVerif.Model.GenSem
import CanVerif.Model.GenApi
import CanVerif.Model.Render
import Driver.OpsCompile
import Driver.OpsPhys
import Driver.OpsSocketcan
/- Operation lines for the generated code (C03, C10): `gmsg`, `gdisp`, `gdesc`. -/
namespace Driver
open CanVerif

def compileHex (h : String) : Option Database := do
  let data ← hexBytes? h
  match parseDbc data with
  | .ok defs =>
    let (db, ws) := compile defs
    if ws.isEmpty then some db else none
  | _ => none

def bstrOf (s : String) : BStr := s.toList.map fun c => UInt8.ofNat c.toNat

def gframeStr (f : Frame) : String := frameStr f

def stateStr (m : DMessage) (st : GState) : String :=
  ",".intercalate (st.vals.map toString) ++ "|" ++ gframeStr (CanVerif.frameOf m st)

def parseGFrame (a : List String) : Option Frame :=
  match a with
  | [id, len, d, rem, ext] => Driver.frameOf id len d rem ext
  | _ => none

/-- spec-level read of a signal's raw value from a payload (bit by bit, two's complement) -/
def specRaw (s : DSignal) (d : Data) : Int :=
  let u := if s.bigEndian then specReadBE d s.start s.length else specReadLE d s.start s.length
  match kindOf s with
  | .bool => (if decide (s.start ≤ 63) && payloadBit d s.start then 1 else 0)
  | .float => u
  | .sint _ => specSigned u s.length
  | .uint _ => u

/-- a float32 NaN pattern decodes to *a* NaN: the payload bits of a signalling NaN are quieted by the float32 ->
float64 -> float32 path of the generated code (hardware behaviour), which is not a difference in value -/
def isNaN32 (v : Int) : Bool := (v / 2 ^ 23 % 256 == 255) && (v % 2 ^ 23 != 0)

def rawAgrees (s : DSignal) (stored spec : Int) : Bool :=
  match kindOf s with
  | .float => stored == spec || (isNaN32 stored && isNaN32 spec)
  | _ => stored == spec

/-- spec-level encoding: zero payload, each transferred signal's low `length` bits at its layout -/
def specEncode (m : DMessage) (st : GState) : Data :=
  let zs := m.signals.zip st.vals
  let mv : Option Int := (muxOf m).map fun p => st.vals.getD p.1 0
  zs.foldl (fun d (p : DSignal × Raw) =>
    let s := p.1
    let transferred := !s.muxed || (mv == some (s.muxValue : Int))
    if !transferred then d else
    let low := (p.2 % (2 ^ s.length : Int)).toNat
    if s.bigEndian then specWriteBE d s.start s.length low else specWriteLE d s.start s.length low) 0#64

structure Run where
  st : GState
  out : List String := []
  viol : Option String := none

def noteViol (r : Run) (k : String) : Run := if r.viol.isSome then r else { r with viol := some k }

def sigIdx (m : DMessage) (name : String) : Option (Nat × DSignal) :=
  (m.signals.zipIdx.find? (fun p => p.1.name == bstrOf name)).map fun p => (p.2, p.1)

/-- checks after every operation: C10's invariant and the frame clauses, C03's encoding clause -/
def checkState (m : DMessage) (r : Run) (lastKind : String) : Run :=
  let st := r.st
  let f := CanVerif.frameOf m st
  let r := if !Inv m st then noteViol r lastKind else r
  let r := if !(f.validate && f.id.toNat == m.id && f.length.toNat == m.length && f.isExtended == m.extended && !f.isRemote) then
      noteViol r ("frame-" ++ lastKind) else r
  if f.data != specEncode m st then noteViol r ("leak-" ++ lastKind) else r

def stepOp (m : DMessage) (r : Run) (op : String) : Option Run := do
  let a := op.splitOn ":"
  let emit (r : Run) (res : String) : Run := { r with out := r.out ++ [res ++ "|" ++ stateStr m r.st] }
  match a with
  | ["new"] => some (emit { r with st := newState m } "ok")
  | ["reset"] => some (emit { r with st := newState m } "ok")
  | ["fr"] => some (emit r "ok")
  | ["sr", sg, v] =>
    let (i, s) ← sigIdx m sg
    let v ← int? v
    let r := { r with st := ⟨setAt r.st.vals i (setRaw s v)⟩ }
    some (emit (checkState m r "raw-setter") "ok")
  | ["sp", sg, x] =>
    let (i, s) ← sigIdx m sg
    let x ← hex16? x
    if !hasPhysical s then some (emit r "nophys") else
    let r := { r with st := ⟨setAt r.st.vals i (setPhys s x)⟩ }
    let kind := if (!s.signed && s.length ≥ 54) || (s.signed && s.length ≥ 55) then "phys-setter-54plus" else "phys-setter"
    some (emit (checkState m r kind) "ok")
  | ["gp", sg] =>
    let (i, s) ← sigIdx m sg
    if !hasPhysical s then some (emit r "nophys") else
    some (emit r (f64Out (getPhys s (r.st.vals.getD i 0))))
  | "un" :: fa =>
    let f ← parseGFrame fa
    match unmarshalFrame m r.st f with
    | none => some (emit r "err")
    | some st' =>
      let r := { r with st := st' }
      -- C03 decode clause: every transferred signal holds the spec value of its layout
      let mv : Option Int := (muxOf m).map fun p => st'.vals.getD p.1 0
      let bad := (m.signals.zip st'.vals).any fun (p : DSignal × Raw) =>
        let transferred := !p.1.muxed || (mv == some (p.1.muxValue : Int))
        transferred && !rawAgrees p.1 p.2 (specRaw p.1 f.data)
      let r := if bad then noteViol r "decode" else r
      some (emit (checkState m r "unmarshal") "ok")
  | ["rt"] =>
    let f := CanVerif.frameOf m r.st
    let res := match unmarshalFrame m (newState m) f with
      | none => "rt-err"
      | some st2 =>
        if CanVerif.frameOf m st2 != f then "rt-differs " ++ gframeStr (CanVerif.frameOf m st2)
        else if !f.validate then "rt-invalid-frame" else "ok"
    some (emit r res)
  | ["cp"] =>
    let dst := copyFrom m (newState m) r.st
    some (emit r ("cp " ++ gframeStr (CanVerif.frameOf m dst)))
  | _ => none

def runGmsg (db : Database) (msg : String) (ops : String) : Option (String × String) := do
  let m ← db.messages.find? (fun m => m.name == bstrOf msg)
  let init : Run := { st := newState m }
  let r ← (ops.splitOn ",").foldlM (stepOp m) init
  let out := " ; ".intercalate r.out
  -- rt/cp results are part of the property as well: anything but ok / a copy with the identical frame is a violation
  let rtBad := r.out.any fun o => o.startsWith "rt-"
  let spec := match r.viol with
    | some k => out ++ " INV-VIOLATED kind=" ++ k
    | none => if rtBad then out ++ " INV-VIOLATED kind=reencode" else "-"
  some (out, spec)

def opsGen : List String → Option (String × String)
  | ["gmsg", h, msg, ops] => do
    match compileHex h with
    | none => some ("not-in-class", "~")
    | some db => runGmsg db msg ops
  | ["gdisp", h, fr] => do
    match compileHex h with
    | none => some ("not-in-class", "~")
    | some db =>
      let f ← parseGFrame (fr.splitOn ":")
      -- the generated switch is on f.ID only
      match db.messages.find? (fun m => m.id == f.id.toNat) with
      | none => some ("err", "-")
      | some m =>
        match unmarshalFrame m ⟨m.signals.map fun _ => 0⟩ f with
        | none => some ("err", "-")
        | some st => some (hx m.name ++ "|" ++ stateStr m st, "-")
  | ["gtxt", h, msg, fr] => do
    match compileHex h with
    | none => some ("not-in-class", "~")
    | some db =>
      let m ← db.messages.find? (fun m => m.name == bstrOf msg)
      let f ← parseGFrame (fr.splitOn ":")
      match unmarshalFrame m (newState m) f with
      | none => some ("err", "-")
      | some st => some (renderTok m (CanVerif.frameOf m st).data, "-")
  | ["gapi", h] => do
    match compileHex h with
    | none => some ("not-in-class", "~")
    | some db =>
      let api := apiOf db
      some (s!"ok deterministic,gofmt,cantool,vet api={bytesHex (api.toList.map fun c => UInt8.ofNat c.toNat)}", "-")
  | ["gnode", h] => do
    -- the runner-facing glue of every generated node: transmitted messages (sender with a send type) in database
    -- order with their cyclic flag, received messages (some signal lists the node as receiver), lookups, hooks, toggles
    match compileHex h with
    | none => some ("not-in-class", "~")
    | some db =>
      if !hasSendType db || db.nodes.isEmpty then some ("no-nodes", "-") else
      let part (n : DNode) : String :=
        let tx := (collectTx db n).map fun m => s!"{strOfB m.name}:{m.id}:{m.sendType == 1}"
        let rx := (collectRx db n).map fun m => s!"{strOfB m.name}:{m.id}"
        s!"{strOfB n.name} tx=[{",".intercalate tx}] rx=[{",".intercalate rx}]"
      some ("ok " ++ " ; ".intercalate (db.nodes.map part), "-")
  | ["gdesc", h] => do
    match compileHex h with
    | none => some ("not-in-class", "~")
    | some db => some (dbStr db, "-")
  | _ => none

end Driver
