import CanVerif.Model.DbcParse
import Driver.Util
/- Operation lines for C04 / C12 (DBC parser): `dbc <hex file>`, `dbcx <hex file> <hex expected dump>`. -/
namespace Driver
open CanVerif

def posStr (p : Pos) : String := s!"{p.line}:{p.col}@{p.offset}"
def hx (s : List UInt8) : String := bytesHex s
def hxList (l : List (List UInt8)) : String := if l.isEmpty then "-" else ",".intercalate (l.map hx)

def hexPad16 (n : Nat) : String :=
  String.ofList ((List.range 16).reverse.map fun i => hexNibble (n / 16 ^ i % 16))

def f64Str (f : F64) : String := hexPad16 f

def objStr : ObjType → String
  | .unspecified => "-" | .node => "BU_" | .message => "BO_" | .signal => "SG_" | .env => "EV_"
def attrTypeStr : AttrType → String
  | .int => "INT" | .hex => "HEX" | .float => "FLOAT" | .string => "STRING" | .enum => "ENUM"

def vdsStr (vds : List ValueDesc) : String :=
  if vds.isEmpty then "-" else ",".intercalate (vds.map fun v => s!"{posStr v.pos};{f64Str v.value};{hx v.desc}")

def sigStr (s : SignalDef) : String :=
  let mux := if s.isMux then "M" else if s.isMuxed then s!"m{s.muxValue}" else "-"
  s!"SG_ {posStr s.pos} {hx s.name} {mux} {s.start} {s.size} {boolStr s.bigEndian} {boolStr s.signed} {f64Str s.factor} {f64Str s.offset} {f64Str s.min} {f64Str s.max} {hx s.unit} {hxList s.receivers}"

def defStr : Def → String
  | .version p v => s!"VERSION {posStr p} {hx v}"
  | .newSymbols p l => s!"NS_ {posStr p} {hxList l}"
  | .bitTiming p a b c => s!"BS_ {posStr p} {a} {b} {c}"
  | .nodes p l => s!"BU_ {posStr p} {hxList l}"
  | .valueTable p n vds => s!"VAL_TABLE_ {posStr p} {hx n} {vdsStr vds}"
  | .message p id n sz tx sigs =>
    s!"BO_ {posStr p} {id} {hx n} {sz} {hx tx}" ++ String.join (sigs.map fun s => " $ " ++ sigStr s)
  | .signal s => sigStr s
  | .txbu p id l => s!"BO_TX_BU_ {posStr p} {id} {hxList l}"
  | .valDescs p o id sg env vds => s!"VAL_ {posStr p} {objStr o} {id} {hx sg} {hx env} {vdsStr vds}"
  | .envVar p n t mn mx u i id a ns =>
    s!"EV_ {posStr p} {hx n} {t} {f64Str mn} {f64Str mx} {hx u} {f64Str i} {id} {hx a} {hxList ns}"
  | .envData p n sz => s!"ENVVAR_DATA_ {posStr p} {hx n} {sz}"
  | .comment p o n id sg env t => s!"CM_ {posStr p} {objStr o} {hx n} {id} {hx sg} {hx env} {hx t}"
  | .attrDef p o n t mi ma mf xf en =>
    s!"BA_DEF_ {posStr p} {objStr o} {hx n} {attrTypeStr t} {mi} {ma} {f64Str mf} {f64Str xf} {hxList en}"
  | .attrDefault p n i f s => s!"BA_DEF_DEF_ {posStr p} {hx n} {i} {f64Str f} {hx s}"
  | .attrValue p n o id sg nd env i f s =>
    s!"BA_ {posStr p} {hx n} {objStr o} {id} {hx sg} {hx nd} {hx env} {i} {f64Str f} {hx s}"
  | .sigValType p id sg t => s!"SIG_VALTYPE_ {posStr p} {id} {hx sg} {t}"
  | .unknown p kw => s!"UNKNOWN {posStr p} {hx kw}"

def defsStr (ds : List Def) : String := String.join (ds.map fun d => " | " ++ defStr d)

def resultStr : ParseResult → String
  | .ok ds => s!"ok {ds.length}{defsStr ds} ;; -"
  | .error p r ds => s!"err {posStr p} {ds.length}{defsStr ds} ;; {r}"
  | .panic site => s!"PANIC {site}"
  | .outOfFuel => "OUT-OF-FUEL"

def opsDbc : List String → Option (String × String)
  | ["dbc", h] => do
    let data ← hexBytes? h
    some (resultStr (parseDbc data), "-")
  | ["dbcx", h, e] => do
    let data ← hexBytes? h
    let expd ← hexBytes? e
    some (resultStr (parseDbc data), String.ofList (expd.map fun b => Char.ofNat b.toNat) ++ " ;; -")
  | ["dbcl", h, k, start, must, pre] => do
    let data ← hexBytes? h
    let _k ← nat? k; let start ← nat? start
    let pre ← hexBytes? pre
    let prefixStr := String.ofList (pre.map fun b => Char.ofNat b.toNat)
    let verdict := match parseDbc data with
      | .ok _ => if must == "1" then "local FAIL corrupted file parsed without error" else "local no-error"
      | .error p _ ds =>
        if p.offset < start then
          s!"local FAIL error position {posStr p} before the corrupted definition (offset {start})"
        else if s!"{ds.length}{defsStr ds}" != prefixStr then
          "local FAIL definitions so far differ from the preceding definitions"
        else "local ok"
      | .panic site => "local FAIL PANIC " ++ site
      | .outOfFuel => "local FAIL OUT-OF-FUEL"
    some (verdict, if must == "1" then "local ok" else "-")
  | _ => none

end Driver
