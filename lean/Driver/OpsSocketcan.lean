import CanVerif.Model.Frame
import CanVerif.Model.BufScanner
import Driver.Util
/- Operation lines for C06 (wire codec through Transmitter/Receiver) and C07 (reassembly). -/
namespace Driver
open CanVerif

def blockOfBytes (bs : List UInt8) : BitVec 128 :=
  BitVec.ofNat 128 ((bs.take 16).foldr (fun b acc => acc * 256 + b.toNat) 0)

def bytesOfBlock (b : BitVec 128) : List UInt8 :=
  (List.range 16).map fun j => UInt8.ofNat ((b.toNat >>> (8 * j)) % 256)

def frameOf (id len d rem ext : String) : Option Frame := do
  let id ← nat? id; let len ← nat? len; let d ← data? d
  some { id := BitVec.ofNat 32 id, length := BitVec.ofNat 8 len, data := d, isRemote := rem == "1", isExtended := ext == "1" }

def frameStr (f : Frame) : String :=
  s!"{f.id.toNat} {f.length.toNat} {dataHex f.data} {boolStr f.isRemote} {boolStr f.isExtended}"

def rxStr (b : BitVec 128) : String :=
  let sc := unmarshalBinary b
  let f := decodeFrame sc
  let e := decodeErrorFrame sc
  let csi := (List.range 3).map fun j => UInt8.ofNat ((e.csi.toNat >>> (8 * j)) % 256)
  s!"{frameStr f} err={boolStr sc.isError} class={e.errorClass.toNat} la={e.lostArbitrationBit.toNat} ce={e.controllerError.toNat} pe={e.protocolError.toNat} pl={e.protocolErrorLocation.toNat} te={e.transceiverError.toNat} csi={bytesHex csi}"

/-- spec of validation, written from the property text -/
def specValid (id len : Nat) (ext : Bool) : Bool :=
  (if ext then id ≤ 0x1fffffff else id ≤ 0x7ff) && len ≤ 8

def parseRead (tok : String) : Option Read :=
  match tok.splitOn "!" with
  | [h] => do let b ← hexBytes? h; some ⟨b, none⟩
  | [h, "EOF"] => do let b ← hexBytes? h; some ⟨b, some .eof⟩
  | [h, e] => do let b ← hexBytes? h; let c ← nat? (e.drop 1).toString; some ⟨b, some (.other c)⟩
  | _ => none

def opsSocketcan : List String → Option (String × String)
  | ["tx", id, len, d, rem, ext] => do
    let f ← frameOf id len d rem ext
    some (s!"1 {bytesHex (bytesOfBlock (wire f))}", "-")
  | ["rx", blk] => do
    let bs ← hexBytes? blk
    if bs.length ≠ 16 then none else
    some (rxStr (blockOfBytes bs), "-")
  | ["val", id, len, rem, ext] => do
    let f ← frameOf id len "0000000000000000" rem ext
    let idn ← nat? id; let ln ← nat? len
    some (if f.validate then "ok" else "err", if specValid idn ln (ext == "1") then "ok" else "err")
  | ["rt", id, len, d, rem, ext] => do
    let f ← frameOf id len d rem ext
    let idn ← nat? id; let ln ← nat? len
    some (frameStr (unwire (wire f)), if specValid idn ln (ext == "1") then frameStr f else "~")
  | ["consts"] =>
    some (s!"{idFlagExtended.toNat} {idFlagRemote.toNat} {idFlagError.toNat} {idMaskExtended.toNat} {idMaskStandard.toNat} 16", "-")
  | ["rxs", script] => do
    let reads ← (if script = "-" then some [] else (script.splitOn ",").mapM parseRead)
    let (blocks, err) := runScript reads []
    let frames := blocks.map fun b => rxStr (blockOfBytes b)
    let e := match err with | none => "nil" | some c => s!"E{c}"
    some (s!"n={blocks.length} err={e} icpt=ok frames={";".intercalate frames}", "-")
  | ["txq", hist] => do
    let items ← (hist.splitOn ";").mapM fun tok =>
      match tok.splitOn "," with
      | [id, len, d, rem, ext, ok] => do
        let f ← frameOf id len d rem ext
        some (bytesOfBlock (wire f), ok == "1")
      | _ => none
    let (ws, ic, res) := transmitSeq items
    some (s!"writes={ws.length} bytes={";".intercalate (ws.map bytesHex)} icpt=ok n={ic} ok={String.join (res.map boolStr)}", "-")
  | ["txs", id, len, d, rem, ext, ok] => do
    let f ← frameOf id len d rem ext
    let (ws, ic, res) := transmit (bytesOfBlock (wire f)) (ok == "1")
    some (s!"writes={ws.length} bytes={";".intercalate (ws.map bytesHex)} icpt={ic} ok={boolStr res}", "-")
  | _ => none

end Driver
