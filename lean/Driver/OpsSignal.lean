import CanVerif.Model.Signal
import Driver.OpsBits
/- Operation lines for C08 (pkg/descriptor/signal.go, integer part). -/
namespace Driver
open CanVerif

def sigOf (ord s l : String) (signed : Bool) : Option Sig := do
  let s ← nat? s; let l ← nat? l
  match ord with
  | "LE" => some { be := false, start := s, length := l, signed }
  | "BE" => some { be := true, start := s, length := l, signed }
  | _ => none

def clampInt (lo hi x : Int) : Int := if x < lo then lo else if x > hi then hi else x

def opsSignal : List String → Option (String × String)
  | ["sgu", ord, s, l, d] => do
    let sg ← sigOf ord s l false; let d ← data? d
    let sp := if sg.be then specReadBE d sg.start sg.length else specReadLE d sg.start sg.length
    some (toString (sg.unmarshalUnsigned d).toNat, toString sp)
  | ["sgs", ord, s, l, d] => do
    let sg ← sigOf ord s l true; let d ← data? d
    let sp := if sg.be then specReadBE d sg.start sg.length else specReadLE d sg.start sg.length
    some (toString (sg.unmarshalSigned d).toInt, toString (specSigned sp sg.length))
  | ["sgb", s, d] => do
    let s ← nat? s; let d ← data? d
    let sg : Sig := { be := false, start := s, length := 1, signed := false }
    some (boolStr (sg.unmarshalBool d), boolStr (decide (s ≤ 63) && payloadBit d s))
  | ["sgf", ord, s, d] => do
    let sg ← sigOf ord s "32" false; let d ← data? d
    let sp := if sg.be then specReadBE d sg.start 32 else specReadLE d sg.start 32
    let f32 (n : Nat) : String := if n / 2^23 % 256 = 255 ∧ n % 2^23 ≠ 0 then "nan" else toString n
    some (f32 (sg.unmarshalFloatBits d).toNat, f32 sp)
  | ["smu", ord, s, l, d, v] => do
    let sg ← sigOf ord s l false; let d ← data? d; let v ← nat? v
    let sp := if sg.be then specWriteBE d sg.start sg.length v else specWriteLE d sg.start sg.length v
    some (dataHex (sg.marshalUnsigned d (BitVec.ofNat 64 v)), dataHex sp)
  | ["sms", ord, s, l, d, x] => do
    let sg ← sigOf ord s l true; let d ← data? d; let x ← int? x
    let low := (x % (2 ^ sg.length : Int)).toNat
    let sp := if sg.be then specWriteBE d sg.start sg.length low else specWriteLE d sg.start sg.length low
    some (dataHex (sg.marshalSigned d (BitVec.ofInt 64 x)), dataHex sp)
  | ["smb", s, d, b] => do
    let s ← nat? s; let d ← data? d; let b ← nat? b
    let sg : Sig := { be := false, start := s, length := 1, signed := false }
    let sp := if s ≤ 63 then specWrite d 1 (fun _ => s) b else d
    some (dataHex (sg.marshalBool d (b != 0)), dataHex sp)
  | ["smf", ord, s, d, f] => do
    let sg ← sigOf ord s "32" false; let d ← data? d; let f ← nat? f
    let sp := if sg.be then specWriteBE d sg.start 32 f else specWriteLE d sg.start 32 f
    some (dataHex (sg.marshalFloatBits d (BitVec.ofNat 32 f)), dataHex sp)
  | ["bnd", l] => do
    let l ← nat? l
    some (s!"{(maxUnsigned l).toNat} {(minSigned l).toInt} {(maxSigned l).toInt}",
          s!"{(2:Nat)^l - 1} {-((2:Int)^(l-1))} {(2:Int)^(l-1) - 1}")
  | ["sats", l, x] => do
    let l ← nat? l; let x ← int? x
    some (toString (satSigned l (BitVec.ofInt 64 x)).toInt,
          toString (clampInt (-((2:Int)^(l-1))) ((2:Int)^(l-1) - 1) x))
  | ["satu", l, v] => do
    let l ← nat? l; let v ← nat? v
    some (toString (satUnsigned l (BitVec.ofNat 64 v)).toNat, toString (min v (2^l - 1)))
  | _ => none

end Driver
