import CanVerif.Model.Runner
import CanVerif.Model.RunGroup
import Driver.Util
/- Operation lines for C13 / C14: expected call traces of the runner against the step-controlled fakes. -/
namespace Driver
open CanVerif

def rxCrit : List String := ["lock", "acc:AfterReceiveHook", "acc:SetReceiveTime", "acc:UnmarshalFrame", "unlock"]
def setCyclicTrace : List String := ["lock", "acc:IsCyclicTransmissionEnabled", "unlock"]
def txBeforeHook : List String := ["lock", "acc:BeforeTransmitHook", "acc:SetTransmitTime", "unlock", "hook"]
def txAfterHook : List String := ["lock", "acc:Frame", "unlock", "tx"]

structure RxAcc where
  trace : List String := []
  s1 : Nat := 0
  s2 : Nat := 0
  err : Option String := none

def rxFrame (a : RxAcc) (idx : Nat) (tok : String) : RxAcc :=
  if a.err.isSome then a else
  let parts := tok.splitOn "!"
  let id := parts.headD ""
  let fault := parts.getD 1 ""
  if id != "1" && id != "2" then a else
  let a := { a with trace := a.trace ++ rxCrit }
  if fault == "U" then { a with err := some "unmarshal-failed" } else
  -- unmarshal stores the frame's first data byte (index+1); the hook then takes the lock and increments
  let v := idx + 1 + 1
  let a := { a with trace := a.trace ++ ["hook"] }
  let a := if id == "1" then { a with s1 := v } else { a with s2 := v }
  if fault == "H" then { a with err := some "hook-failed" } else a

/-- outcome of `Run` in the group model (Model/RunGroup.lean) for a scenario: the events up to the failure or the
cancellation, then the canonical drain (closer, receiver on the closed connection, transmitters).  By
`C14_clean_stop` / `C14_fault_reported` the result does not depend on the schedule or the number of transmitters. -/
def groupOutcome (ntx : Nat) (lead : List GEvent) : String :=
  let drain : List GEvent := [.closerRuns, .recvClosed ⟨true, "use of closed network connection"⟩] ++
    (List.range ntx).map GEvent.txDone
  -- events that are not enabled (a goroutine that already returned) are skipped
  let s := (lead ++ drain).foldl (fun s e => (gStep s e).getD s) (GroupSt.init ntx)
  let res := match runResult s with
    | none => "nil"
    | some e => e.tag
  s!"{res} {if s.connClosed then "conn-closed" else "conn-open"} {if s.running.isEmpty then "no-leak" else "leak"}"

def opsRunner : List String → Option (String × String)
  | "rrx" :: script :: rest =>
    let toks := if script == "-" then [] else script.splitOn ","
    let a := (toks.zipIdx).foldl (fun a (p : String × Nat) => rxFrame a p.2 p.1) {}
    let err := match a.err with
      | some e => e
      | none => if rest == ["rxerr"] then "read-failed" else "nil"
    some (s!"{err} viol=0 s1={a.s1} s2={a.s2} trace={",".intercalate a.trace}", "-")
  | ["rtx", script] =>
    let step (st : List String × Nat × Option String) (ev : String) : List String × Nat × Option String :=
      let (tr, n, fin) := st
      if fin.isSome then st
      else if ev == "e" then (tr ++ txBeforeHook ++ txAfterHook, n + 1, none)
      else if ev == "eH" then (tr ++ txBeforeHook, n, some "hook-failed")
      else if ev == "eT" then (tr ++ txBeforeHook ++ txAfterHook, n + 1, some "bus-off")
      else if ev == "w1" || ev == "w0" then (tr ++ setCyclicTrace, n, none)
      else if ev == "c" then (tr, n, some "nil")
      else st
    let (tr, n, fin) := (script.splitOn ",").foldl step (setCyclicTrace, 0, none)
    some (s!"{fin.getD "nil"} viol=0 frames={n} frames-after-hook trace={",".intercalate tr}", "-")
  | ["rcyc", _] => some ("ok nil viol=0", "-")
  | ["rtog", _, _, _] =>
    -- a toggle made while the transmitter is inside transmit() takes effect all the same (C14_no_lost_toggle: the
    -- wake-up token stays pending until the loop is parked again)
    some ("ok nil viol=0", "-")
  | ["rtxslow", _, _] =>
    -- a hook slower than the send timeout: the accepted request is still transmitted exactly once
    some ("nil viol=0 frames=1", "-")
  | ["rrun2", k, _] => do
    -- k event messages, one accepted request each, all in flight together: exactly one frame per message, carrying
    -- the state its own before-transmit hook left (base + 1)
    let k ← k.toNat?
    let frames := (List.range k).map fun i =>
      let st := (i + 1) * 0x0101010101010101 + 1
      s!"{16 + i}:{bytesHex ((List.range 8).map fun j => UInt8.ofNat ((st >>> (8 * j)) % 256))}"
    some (s!"nil viol=0 frames={",".intercalate frames}", "-")
  | ["rrun3", _] =>
    -- cancelled while a transmitter is inside its before-transmit hook: a clean stop all the same
    some (s!"{groupOutcome 1 [.callerCancel]} viol=0", "nil conn-closed no-leak viol=0")
  | ["rrun", mode, _] =>
    if mode == "cancel" then
      some (s!"{groupOutcome 1 [.callerCancel]} viol=0 peer-frames=1 rx-hooks=3", "nil conn-closed no-leak viol=0 peer-frames=1 rx-hooks=3")
    else if mode == "hookerr" || mode == "hookerr-closed" then
      -- the property: a failing hook makes Run return that error (whatever its text); the model follows the code
      -- (`strings.Contains(err.Error(), "closed")`), so for hookerr-closed model and property disagree: finding F2
      let e : GErr := ⟨mode == "hookerr-closed", "hook-failed"⟩
      some (s!"{groupOutcome 1 [.exitErr .receiver e]} viol=0 peer-frames=0 rx-hooks=1",
            "hook-failed conn-closed no-leak viol=0 peer-frames=0 rx-hooks=1")
    else none
  | _ => none

end Driver
