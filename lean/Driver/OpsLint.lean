import CanVerif.Model.Lint
import Driver.OpsDbc
/- Operation lines for C18 (lint analyzers): `lint <hex file>`. -/
namespace Driver
open CanVerif

def diagStr (d : Diag) : String := s!"{posStr d.pos}/{d.msg}"

def lintStr (data : List UInt8) (defs : List Def) : String :=
  " ".intercalate (allAnalyzers.map fun (n, a) => n ++ "{" ++ ";".intercalate ((a data defs).map diagStr) ++ "}")

def opsLint : List String → Option (String × String)
  | ["lint", h] => do
    let data ← hexBytes? h
    match parseDbc data with
    | .ok defs => some (lintStr data defs ++ " unchanged order-independent", "-")
    | _ => some ("parse-error", "-")
  | _ => none

end Driver
