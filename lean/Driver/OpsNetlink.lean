import CanVerif.Model.Netlink
import Driver.Util
/- Operation lines for C20 (candevice netlink codec). -/
namespace Driver
open CanVerif

def natList (ws : List String) : Option (List Nat) := ws.mapM nat?

def wrap32 (i : Int) : Nat := (i % 4294967296).toNat

def showVals (vs : List Nat) : String := " ".intercalate (vs.map toString)

def opsNetlink : List String → Option (String × String)
  | ["nlsz"] =>
    some (s!"{layoutSize bitTimingLayout} {layoutSize bitTimingConstLayout} {layoutSize clockLayout} {layoutSize ctrlModeLayout} {layoutSize berrLayout} {layoutSize statsLayout}", "-")
  | "nlm" :: "ifinfo" :: [fam, typ, idx, flags, change] => do
    let fam ← nat? fam; let typ ← nat? typ; let idx ← int? idx; let flags ← nat? flags; let change ← nat? change
    some (bytesHex (encodeItems ifInfoLayout [fam, typ, wrap32 idx, flags, change]) ++ " img=ok", "-")
  | "nlm" :: "bt" :: vs => do
    let vs ← natList vs
    if vs.length ≠ 8 then none else
    some (bytesHex (encodeItems bitTimingLayout vs) ++ " img=ok", "-")
  | "nlm" :: "cm" :: vs => do
    let vs ← natList vs
    if vs.length ≠ 2 then none else
    some (bytesHex (encodeItems ctrlModeLayout vs) ++ " img=ok", "-")
  | ["nlu", kind, h] => do
    let lay ← layoutOf kind
    let b ← hexBytes? h
    match unmarshalItems lay b with
    | none => some ("err", "-")
    | some vs =>
      if kind == "btc" then
        match vs with
        | name :: rest => some (s!"ok {bytesHex (leBytes 16 name)} {showVals rest}", "-")
        | [] => none
      else some ("ok " ++ showVals vs, "-")
  | "nlli" :: kind :: rest => do
    let vs ← natList rest
    if vs.length ≠ 10 then none else
    let bt := vs.take 8
    let cm := vs.drop 8
    let enc := encodeLinkInfo (kind.toList.map fun c => UInt8.ofNat c.toNat) bt cm
    let dec := match decodeLinkInfo enc with
      | none => "dec-err"
      | some li => s!"{String.ofList (li.kind.map fun (b : UInt8) => Char.ofNat b.toNat)} {showVals li.bt} {showVals li.cm}"
    some (s!"{bytesHex enc} | {dec}", "-")
  | ["nlraw", h] => do
    let b ← hexBytes? h
    match decodeLinkInfo b with
    | none => some ("dec-err", "-")
    | some li => some (s!"{String.ofList (li.kind.map fun (b : UInt8) => Char.ofNat b.toNat)} {showVals li.bt} {showVals li.cm}", "-")
  | _ => none

end Driver
