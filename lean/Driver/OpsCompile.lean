import CanVerif.Model.Compile
import Driver.OpsDbc
/- Operation lines for C05 (compile): `cmp <hex file>`, `cmpx <hex file> <hex expected dump>`. -/
namespace Driver
open CanVerif

def dvalStr (v : DVal) : String := s!"{v.value}:{hx v.desc}"
def listStr (l : List String) : String := if l.isEmpty then "-" else ",".intercalate l

def dsigStr (s : DSignal) : String :=
  s!"S {hx s.name} {s.start} {s.length} {boolStr s.bigEndian} {boolStr s.signed} {boolStr s.float} {boolStr s.mux} {boolStr s.muxed} {s.muxValue} {f64Str s.offset} {f64Str s.scale} {f64Str s.min} {f64Str s.max} {hx s.unit} {hx s.desc} {s.default} {hxList s.receivers} {listStr (s.vds.map dvalStr)}"

def dmsgStr (m : DMessage) : String :=
  s!"M {m.id} {boolStr m.extended} {m.length} {hx m.name} {hx m.sender} {m.sendType} {m.cycleNs} {m.delayNs} {hx m.desc}" ++
    String.join (m.signals.map fun s => " $ " ++ dsigStr s)

def dbStr (db : Database) : String :=
  s!"v={hx db.version}" ++ String.join (db.nodes.map fun n => s!" | N {hx n.name} {hx n.desc}") ++
    String.join (db.messages.map fun m => " | " ++ dmsgStr m)

/-- insertion sort of strings for the warning multiset -/
def sortStrings (l : List String) : List String := sortBy (fun a b => decide (a < b)) l

def warnStr (ws : List Warning) : String :=
  listStr (sortStrings (ws.map fun w => s!"{w.pos.line}:{w.pos.col}/{w.reason}"))

def compileStr (data : List UInt8) : String :=
  match parseDbc data with
  | .ok defs =>
    let (db, ws) := compile defs
    s!"{dbStr db} ;; W {warnStr ws}"
  | _ => "parse-error"

def opsCompile : List String → Option (String × String)
  | ["sendtype", h, want] => do
    let b ← hexBytes? h
    some (toString (sendTypeOf b), want)
  | ["cmp", h] => do
    let data ← hexBytes? h
    some (compileStr data, "-")
  | ["cmpx", h, e] => do
    let data ← hexBytes? h
    let expd ← hexBytes? e
    some (compileStr data, String.ofList (expd.map fun b => Char.ofNat b.toNat))
  | _ => none

end Driver
