import CanVerif.Model.Phys
import Driver.OpsDbc
/- Operation lines for C09: `tophys`, `fromphys`, `unmphys`, and float helpers `f64op`. -/
namespace Driver
open CanVerif

def hex16? (s : String) : Option Nat :=
  if s.length ≠ 16 then none else
  s.toList.foldl (fun acc c => match acc, hexDigit? c with
    | some a, some v => some (a * 16 + v)
    | _, _ => none) (some 0)

def f64Out (f : F64) : String := if f64IsNaN f then "nan" else hexPad16 f

/-- signal spec: `<len> <signed 0|1> <scale> <offset> <min> <max>` (floats as 16 hex digits) -/
def physSig (len sg sc off mn mx : String) : Option DSignal := do
  let len ← nat? len
  let sc ← hex16? sc; let off ← hex16? off; let mn ← hex16? mn; let mx ← hex16? mx
  some { name := [], start := 0, length := len, bigEndian := false, signed := sg == "1", mux := false, muxed := false,
         muxValue := 0, offset := off, scale := sc, min := mn, max := mx, unit := [], receivers := [] }

/-- the five clauses of C09, evaluated on the outputs: encodable, saturating, inside raw range -/
def rawRange (s : DSignal) : Int × Int :=
  if s.signed then (-(2 ^ (s.length - 1) : Int), (2 ^ (s.length - 1) : Int) - 1) else (0, (2 ^ s.length : Int) - 1)

def opsPhys : List String → Option (String × String)
  | ["tophys", len, sg, sc, off, mn, mx, v] => do
    let s ← physSig len sg sc off mn mx
    let v ← int? v
    some (f64Out (toPhysical s (f64OfInt v)), "-")
  | ["fromphys", len, sg, sc, off, mn, mx, p] => do
    let s ← physSig len sg sc off mn mx
    let p ← hex16? p
    let r := fromPhysical s p
    -- oracle: for non-NaN p and length ≤ 53 the result is inside the representable raw range (encodable)
    let (lo, hi) := rawRange s
    let t := f64ToInt64 r
    let inRange := !f64IsNaN r && lo ≤ t && t ≤ hi && f64Le (f64OfInt lo) r && f64Le r (f64OfInt hi)
    some (s!"{f64Out r} enc={boolStr inRange}", if s.length ≤ 53 && !f64IsNaN p then s!"{f64Out r} enc=1" else "-")
  | ["unmphys", ord, st, len, sg, sc, off, mn, mx, d] => do
    let s ← physSig len sg sc off mn mx
    let st ← nat? st; let d ← data? d
    let s := { s with start := st, bigEndian := ord == "BE" }
    some (f64Out (unmarshalPhysical s d), "-")
  | ["sgp", ord, st, len, sg, d] => do
    -- C08: UnmarshalPhysical of a signal with identity conversion returns the C01 value of the layout (as a double)
    let st ← nat? st; let len ← nat? len; let d ← data? d
    let s : DSignal :=
      { name := [], start := st, length := len, bigEndian := ord == "BE", signed := sg == "1", mux := false,
        muxed := false, muxValue := 0, offset := 0, scale := 0x3ff0000000000000, min := 0, max := 0, unit := [], receivers := [] }
    let u := if s.bigEndian then specReadBE d st len else specReadLE d st len
    let sp : F64 := if len == 1 then (if decide (st ≤ 63) && payloadBit d st then 0x3ff0000000000000 else 0)
      else if s.signed then f64OfInt (specSigned u len) else f64OfNat u
    some (f64Out (unmarshalPhysical s d), f64Out sp)
  | ["sgv", ord, st, len, sg, d, vs] => do
    -- C08: UnmarshalValueDescription looks up the C01 value (unsigned values reinterpreted as int64)
    let st ← nat? st; let len ← nat? len; let d ← data? d
    let vals ← (vs.splitOn ",").mapM int?
    let vds : List DVal := (List.range vals.length).zip vals |>.map fun (i, v) => { value := v, desc := (toString i).toUTF8.toList }
    let s : DSignal :=
      { name := [], start := st, length := len, bigEndian := ord == "BE", signed := sg == "1", mux := false,
        muxed := false, muxValue := 0, offset := 0, scale := 0x3ff0000000000000, min := 0, max := 0, unit := [], receivers := [],
        vds := vds }
    let u := if s.bigEndian then specReadBE d st len else specReadLE d st len
    let v : Int := if s.signed then specSigned u len else (if u ≥ 2 ^ 63 then (u : Int) - 2 ^ 64 else u)
    let show_ (o : Option BStr) : String := match o with
      | some b => "d" ++ String.ofList (b.map fun c => Char.ofNat c.toNat)
      | none => "none"
    some (show_ (unmarshalValueDescription s d), show_ ((vds.find? fun x => x.value == v).map (·.desc)))
  | ["physmono", len, sg, sc, off, mn, mx, p, q] => do
    let s ← physSig len sg sc off mn mx
    let p ← hex16? p; let q ← hex16? q
    let rp := fromPhysical s p; let rq := fromPhysical s q
    let pos := f64Lt 0 s.scale
    let ok := (pos && f64Le rp rq) || (f64Lt s.scale 0 && f64Le rq rp)
    -- the generator supplies p ≤ q, both non-NaN: the property demands mono=1
    some (s!"{f64Out rp} {f64Out rq} mono={boolStr ok}", s!"{f64Out rp} {f64Out rq} mono=1")
  | ["physrt", len, sg, sc, off, mn, mx, r] => do
    let s ← physSig len sg sc off mn mx
    let r ← int? r
    let p := toPhysical s (f64OfInt r)
    let back := fromPhysical s p
    let bi : Int := if s.signed then f64ToInt64 back else wrapInt64 (f64ToUint64 back)
    let p2 := toPhysical s (f64OfInt bi)
    -- exact value of a finite double as an integer multiple of 2^-1200
    let ex (x : F64) : Int :=
      let (m, e) := f64Parts x
      let v : Int := (m * 2 ^ (e + 1200).toNat : Nat)
      if f64IsNeg x then -v else v
    let fin (x : F64) : Bool := !f64IsNaN x && !f64IsInf x
    let absI (i : Int) : Int := if i < 0 then -i else i
    -- Resolves s := 2^-50 (2^32 |scale| + |offset|) ≤ |scale| ; applicable for length ≤ 32, finite non-zero scale
    let applicable := s.length ≤ 32 && fin s.scale && fin s.offset && !f64IsZero s.scale && fin p && fin p2 &&
      decide (2 ^ 32 * absI (ex s.scale) + absI (ex s.offset) ≤ 2 ^ 50 * absI (ex s.scale))
    -- the physical value of r lies inside the declared range (it was not clamped)
    let unclamped := toPhysical { s with min := 0, max := 0 } (f64OfInt r)
    let inRange := !hasRange s || (f64Le s.min unclamped && f64Le unclamped s.max)
    let rawOk := decide (absI (bi - r) ≤ 1)
    let physOk := decide (absI (ex p2 - ex p) < absI (ex s.scale))
    let m := s!"{f64Out p} {bi} {f64Out p2}"
    -- classification of a violated bound: the raw value is off by at most one and the physical error exceeds one
    -- step by at most the rounding noise 2^-48 (2^32 |scale| + |offset|) (truncation of a quotient that noise left just below an integer)
    let noise := rawOk && decide (2 ^ 48 * (absI (ex p2 - ex p) - absI (ex s.scale)) ≤
      2 ^ 32 * absI (ex s.scale) + absI (ex s.offset))
    some (m, if applicable && inRange && !(rawOk && physOk) then
        m ++ " ROUND-TRIP-BOUND-VIOLATED kind=" ++ (if noise then "full-step-by-truncation" else "gross") else "-")
  | ["f64op", op, a, b] => do
    let a ← hex16? a; let b ← hex16? b
    let r := match op with
      | "mul" => f64Mul a b | "add" => f64Add a b | "sub" => f64Sub a b | "div" => f64Div a b
      | "max" => f64Max a b | "min" => f64Min a b | _ => 0
    some (f64Out r, "~")
  | ["f64cvt", op, a] => do
    let a ← hex16? a
    match op with
    | "i64" => some (toString (f64ToInt64 a), "~")
    | "u64" => some (toString (f64ToUint64 a), "~")
    | "f32" => some (toString (f64ToF32 a), "~")
    | "ofi" => some (f64Out (f64OfInt (BitVec.ofNat 64 a).toInt), "~")
    | "ofu" => some (f64Out (f64OfNat a), "~")
    | "of32" => some (f64Out (f32ToF64 (a % 2^32)), "~")
    | _ => none
  | _ => none

end Driver
