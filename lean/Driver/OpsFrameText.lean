import CanVerif.Model.Json
import Driver.OpsSocketcan
/- Operation lines for C15 (candump text) and C16 (JSON). -/
namespace Driver
open CanVerif

def printRes : PrintResult → String
  | .ok s => bytesHex s
  | .panic => "PANIC"

def unusedZero (f : Frame) : Bool :=
  let bs := dataBytes f.data
  if f.isRemote then bs.all (· == 0) else (bs.drop f.length.toNat).all (· == 0)

def optFrame : Option Frame → String
  | some f => "ok " ++ frameStr f
  | none => "err"

def opsFrameText : List String → Option (String × String)
  | ["fstr", id, len, d, rem, ext] => do
    let f ← frameOf id len d rem ext
    some (printRes f.toStr, if f.validate then "-" else "~")
  | ["fparse", h] => do
    let s ← hexBytes? h
    some (optFrame (parseFrame s), "-")
  | ["frt", id, len, d, rem, ext] => do
    let f ← frameOf id len d rem ext
    let m := match f.toStr with | .ok s => optFrame (parseFrame s) | .panic => "PANIC"
    some (m, if f.validate && unusedZero f then "ok " ++ frameStr f else "~")
  | ["fjson", id, len, d, rem, ext] => do
    let f ← frameOf id len d rem ext
    let m := match f.json with
      | .ok s => bytesHex s ++ (if (parseJson s).isSome then " valid" else " invalid")
      | .panic => "PANIC"
    some (m, if f.validate then "-" else "~")
  | ["junm", h] => do
    let s ← hexBytes? h
    some (optFrame (unmarshalJSON s), "-")
  | ["jrt", id, len, d, rem, ext] => do
    let f ← frameOf id len d rem ext
    let m := match f.json with | .ok s => optFrame (unmarshalJSON s) | .panic => "PANIC"
    some (m, if f.validate && unusedZero f then "ok " ++ frameStr f else "~")
  | _ => none

end Driver
