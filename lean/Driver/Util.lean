/- Line-protocol helpers for the model driver (core Lean only). -/
namespace Driver

def hexDigit? (c : Char) : Option Nat :=
  if '0' ≤ c ∧ c ≤ '9' then some (c.toNat - '0'.toNat)
  else if 'a' ≤ c ∧ c ≤ 'f' then some (c.toNat - 'a'.toNat + 10)
  else if 'A' ≤ c ∧ c ≤ 'F' then some (c.toNat - 'A'.toNat + 10)
  else none

/-- hex string → bytes; `-` denotes the empty byte string. -/
def hexBytes? (s : String) : Option (List UInt8) :=
  if s = "-" then some [] else
  let rec go : List Char → List UInt8 → Option (List UInt8)
    | [], acc => some acc.reverse
    | [_], _ => none
    | a :: b :: rest, acc =>
      match hexDigit? a, hexDigit? b with
      | some x, some y => go rest (UInt8.ofNat (x * 16 + y) :: acc)
      | _, _ => none
  go s.toList []

def hexNibble (n : Nat) : Char :=
  if n < 10 then Char.ofNat (n + '0'.toNat) else Char.ofNat (n - 10 + 'a'.toNat)

def bytesHex (bs : List UInt8) : String :=
  if bs.isEmpty then "-" else
  String.ofList (bs.flatMap fun b => [hexNibble (b.toNat / 16), hexNibble (b.toNat % 16)])

/-- 8 payload bytes d[0]..d[7] → LE-packed word (bit k = bit k%8 of byte k/8). -/
def dataOfBytes (bs : List UInt8) : BitVec 64 :=
  BitVec.ofNat 64 ((bs.take 8).foldr (fun b acc => acc * 256 + b.toNat) 0)

def bytesOfData (d : BitVec 64) : List UInt8 :=
  (List.range 8).map fun j => UInt8.ofNat ((d.toNat >>> (8 * j)) % 256)

def dataHex (d : BitVec 64) : String := bytesHex (bytesOfData d)

def data? (s : String) : Option (BitVec 64) := do
  let bs ← hexBytes? s
  if bs.length = 8 then some (dataOfBytes bs) else none

def int? (s : String) : Option Int := s.toInt?
def nat? (s : String) : Option Nat := s.toNat?

def boolStr (b : Bool) : String := if b then "1" else "0"

end Driver
