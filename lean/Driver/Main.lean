import Driver.OpsBits
import Driver.OpsSignal
import Driver.OpsSocketcan
import Driver.OpsFrameText
import Driver.OpsNetlink
import Driver.OpsDbc
import Driver.OpsLint
import Driver.OpsCompile
import Driver.OpsPhys
import Driver.OpsGen
import Driver.OpsRunner
/- `canmodel`: reads one operation per line on stdin, prints `model<TAB>spec` per line. -/
open Driver

def dispatch (ws : List String) : String :=
  let groups : List (List String → Option (String × String)) := [opsBits, opsSignal, opsSocketcan, opsFrameText, opsNetlink, opsDbc, opsLint, opsCompile, opsPhys, opsGen, opsRunner]
  match groups.findSome? (fun g => g ws) with
  | some (m, s) => m ++ "\t" ++ s
  | none => "bad-op\t-"

partial def loop (h : IO.FS.Stream) (out : IO.FS.Stream) : IO Unit := do
  let line ← h.getLine
  if line.isEmpty then return ()
  let ws := (line.trimAscii.toString.splitOn " ").filter (· ≠ "")
  out.putStrLn (dispatch ws)
  loop h out

def main : IO Unit := do
  let stdin ← IO.getStdin
  let stdout ← IO.getStdout
  loop stdin stdout
