import CanVerif.Model.Bits
import Driver.Util
/- Operation lines for C01, C02, C17 (data.go, reinterpret.go). -/
namespace Driver
open CanVerif

def sInt (b : BitVec 64) : Int := b.toInt

def ofInt64 (x : Int) : BitVec 64 := BitVec.ofInt 64 x

def okErr (b : Bool) : String := if b then "ok" else "err"


structure W where
  signed : Bool
  be : Bool
  s : Nat
  l : Nat
  v : Int

def parseW (w : String) : Option W :=
  match w.splitOn ":" with
  | [k, ord, s, l, v] => do
    let s ← nat? s; let l ← nat? l; let v ← int? v
    some { signed := k == "s", be := ord == "BE", s, l, v }
  | _ => none

def applyW (d : Data) (w : W) : Data :=
  match w.signed, w.be with
  | false, false => writeULE d w.s w.l (BitVec.ofInt 64 w.v)
  | false, true => writeUBE d w.s w.l (BitVec.ofInt 64 w.v)
  | true, false => writeSLE d w.s w.l (BitVec.ofInt 64 w.v)
  | true, true => writeSBE d w.s w.l (BitVec.ofInt 64 w.v)

def applyWSpec (d : Data) (w : W) : Data :=
  let low := (w.v % (2 ^ w.l : Int)).toNat
  if w.be then specWriteBE d w.s w.l low else specWriteLE d w.s w.l low

/-- returns (model result, spec/oracle result or "-") -/
def opsBits : List String → Option (String × String)
  | ["rdu", ord, s, l, d] => do
    let s ← nat? s; let l ← nat? l; let d ← data? d
    match ord with
    | "LE" => some (toString (readULE d s l).toNat, toString (specReadLE d s l))
    | "BE" => some (toString (readUBE d s l).toNat, toString (specReadBE d s l))
    | _ => none
  | ["rds", ord, s, l, d] => do
    let s ← nat? s; let l ← nat? l; let d ← data? d
    match ord with
    | "LE" => some (toString (sInt (readSLE d s l)), toString (specSigned (specReadLE d s l) l))
    | "BE" => some (toString (sInt (readSBE d s l)), toString (specSigned (specReadBE d s l) l))
    | _ => none
  | ["wru", ord, s, l, d, v] => do
    let s ← nat? s; let l ← nat? l; let d ← data? d; let v ← nat? v
    match ord with
    | "LE" => some (dataHex (writeULE d s l (BitVec.ofNat 64 v)), dataHex (specWriteLE d s l v))
    | "BE" => some (dataHex (writeUBE d s l (BitVec.ofNat 64 v)), dataHex (specWriteBE d s l v))
    | _ => none
  | ["wrs", ord, s, l, d, x] => do
    let s ← nat? s; let l ← nat? l; let d ← data? d; let x ← int? x
    let low := (x % (2 ^ l : Int)).toNat
    match ord with
    | "LE" => some (dataHex (writeSLE d s l (ofInt64 x)), dataHex (specWriteLE d s l low))
    | "BE" => some (dataHex (writeSBE d s l (ofInt64 x)), dataHex (specWriteBE d s l low))
    | _ => none
  | ["bit", i, d] => do
    let i ← nat? i; let d ← data? d
    some (boolStr (getBit d i), boolStr (decide (i ≤ 63) && payloadBit d i))
  | ["sbit", i, b, d] => do
    let i ← nat? i; let b ← nat? b; let d ← data? d
    let spec := if i ≤ 63 then specWrite d 1 (fun _ => i) b else d
    some (dataHex (setBit d i (b != 0)), dataHex spec)
  | ["pack", ord, d] => do
    let d ← data? d
    match ord with
    | "LE" => some (toString (packLE d).toNat, "-")
    | "BE" => some (toString (packBE d).toNat, "-")
    | _ => none
  | ["unpack", ord, v] => do
    let v ← nat? v
    match ord with
    | "LE" => some (dataHex (unpackLE (BitVec.ofNat 64 v)), "-")
    | "BE" => some (dataHex (unpackBE (BitVec.ofNat 64 v)), "-")
    | _ => none
  | ["ass", u, bits] => do
    let u ← nat? u; let bits ← nat? bits
    some (toString (sInt (asSigned (BitVec.ofNat 64 u) bits)),
          if 1 ≤ bits ∧ bits ≤ 64 ∧ u < 2 ^ bits then toString (specSigned u bits) else "-")
  | ["asu", x, bits] => do
    let x ← int? x; let bits ← nat? bits
    some (toString (asUnsigned (ofInt64 x) bits).toNat,
          if 1 ≤ bits ∧ bits ≤ 64 then toString (x % (2 ^ bits : Int)).toNat else "-")
  | ["chk", ord, fl, s, l] => do
    let fl ← nat? fl; let s ← nat? s; let l ← nat? l
    match ord with
    | "LE" => some (okErr (checkLE fl s l), okErr (specCheckLE fl s l))
    | "BE" => some (okErr (checkBE fl s l), okErr (specCheckBE fl s l))
    | _ => none
  | ["chv", v, bits] => do
    let v ← nat? v; let bits ← nat? bits
    some (okErr (checkValue (BitVec.ofNat 64 v) bits), okErr (decide (v < 2 ^ bits)))
  | ["conf", ord, fl, s, l, d, v] => do
    let fl ← nat? fl; let s ← nat? s; let l ← nat? l; let d ← data? d; let v ← nat? v
    match ord with
    | "LE" =>
      let m := if checkLE fl s l then
          let d' := writeULE d s l (BitVec.ofNat 64 v); s!"ok {dataHex d'} {(readULE d' s l).toNat}" else "err"
      let sp := if specCheckLE fl s l then s!"ok {dataHex (specWriteLE d s l v)} {v}" else "err"
      some (m, sp)
    | "BE" =>
      let m := if checkBE fl s l then
          let d' := writeUBE d s l (BitVec.ofNat 64 v); s!"ok {dataHex d'} {(readUBE d' s l).toNat}" else "err"
      let sp := if specCheckBE fl s l then s!"ok {dataHex (specWriteBE d s l v)} {v}" else "err"
      some (m, sp)
    | _ => none
  | ["wseq", d, ws, perm] => do
    let d ← data? d
    let ws ← (ws.splitOn ",").mapM parseW
    let perm ← (perm.splitOn ",").mapM nat?
    let pws ← perm.mapM (fun i => ws[i]?)
    let m1 := ws.foldl applyW d
    let m2 := pws.foldl applyW d
    let sp := ws.foldl applyWSpec d
    some (s!"{dataHex m1} {dataHex m2}", s!"{dataHex sp} {dataHex sp}")
  | _ => none

end Driver
